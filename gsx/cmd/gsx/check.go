package main

import (
	"encoding/json"
	"flag"
	"fmt"
	"os"
	"path/filepath"
	"runtime"
	"sort"
	"strconv"
	"strings"
	"sync"
	"time"

	"gsx/eng"
)

const verifDir = "/verif"

// harnessDir / evidenceDir: overridable for development runs that must not disturb a running check.
func harnessDir() string {
	if d := os.Getenv("GSX_HARNESS"); d != "" {
		return d
	}
	return filepath.Join(verifDir, "harness")
}

func evidenceDir() string {
	if d := os.Getenv("GSX_EVIDENCE"); d != "" {
		return d
	}
	return filepath.Join(verifDir, "evidence")
}

type PropSpec struct {
	ID        string
	Technique string
	Bounds    map[string]interface{}
	Stubs     []string
	Outside   []string
	Quick     func() []eng.Instance
	Thorough  func() []eng.Instance
	Race      bool
	Level     string // evidence level (default model_checking)
	Explain   string // for level "other"
}

var registry = map[string]*PropSpec{}

func register(p *PropSpec) { registry[p.ID] = p }

type KnownFindings struct {
	Open  []KnownEntry `json:"open"`
	Fixed []string     `json:"fixed"`
}

type KnownEntry struct {
	Property string `json:"property"`
	Instance string `json:"instance"` // instance name prefix
	Message  string `json:"message"`  // obligation message
	What     string `json:"what"`
}

func loadKnown() KnownFindings {
	var k KnownFindings
	b, err := os.ReadFile(filepath.Join(verifDir, "known_findings.json"))
	if err == nil {
		json.Unmarshal(b, &k)
	}
	return k
}

type instOutcome struct {
	res       *eng.InstResult
	err       error
	reachJob  *eng.ReplayJob
	violJobs  []*eng.ReplayJob
	violObl   []eng.Oblig
	wall      time.Duration
	xAgree, xUnknown int
	xDisagree string
}

func checkCmd(args []string) int {
	fs := flag.NewFlagSet("check", flag.ExitOnError)
	tier := fs.String("tier", "quick", "quick|thorough")
	solver := fs.String("solver", "z3-new", "solver")
	only := fs.String("only", "", "substring filter on instance names")
	workers := fs.Int("j", runtime.NumCPU(), "parallel workers")
	noReplay := fs.Bool("no-replay", false, "skip native replays (debugging only; result is never a pass)")
	timeoutMs := fs.Int("timeout-ms", 300000, "per-query solver timeout")
	verbose := fs.Bool("v", false, "verbose")
	xsolver := fs.String("xsolver", "", "second solver used to re-discharge passing instances (cross-check)")
	fs.Parse(args[1:])
	id := args[0]
	spec := registry[id]
	if spec == nil {
		fmt.Printf("no check registered for %s\n", id)
		return 2
	}
	if t := os.Getenv("VERIF_TIER"); t != "" && *tier == "" {
		*tier = t
	}
	seed := 0
	if s := os.Getenv("VERIF_SEED"); s != "" {
		seed, _ = strconv.Atoi(s)
	}
	t0 := time.Now()
	var insts []eng.Instance
	insts = spec.Quick()
	if *tier == "thorough" && spec.Thorough != nil {
		// thorough = everything of the quick tier plus the deeper instances (same name: the thorough definition wins)
		byName := map[string]int{}
		for i, in := range insts {
			byName[in.Name] = i
		}
		for _, in := range spec.Thorough() {
			if i, ok := byName[in.Name]; ok {
				insts[i] = in
			} else {
				byName[in.Name] = len(insts)
				insts = append(insts, in)
			}
		}
	}
	if *only != "" {
		var f []eng.Instance
		for _, in := range insts {
			if strings.Contains(in.Name, *only) {
				f = append(f, in)
			}
		}
		insts = f
	}
	// seed only permutes the order in which instances are scheduled
	if seed != 0 {
		r := uint64(seed)*6364136223846793005 + 1442695040888963407
		for i := len(insts) - 1; i > 0; i-- {
			r = r*6364136223846793005 + 1442695040888963407
			j := int((r >> 33) % uint64(i+1))
			insts[i], insts[j] = insts[j], insts[i]
		}
	}
	ov, _, err := eng.HarnessOverlay(harnessDir())
	if err != nil {
		fmt.Println("overlay:", err)
		return 2
	}
	for k := range ov {
		if strings.HasPrefix(filepath.Base(k), "zz_vx_native") {
			delete(ov, k)
		}
	}
	L, err := eng.Load(ov)
	if err != nil {
		fmt.Println("load error (does /repo build?):", err)
		return 2
	}
	outs := make([]*instOutcome, len(insts))
	var wg sync.WaitGroup
	sem := make(chan struct{}, *workers)
	for i := range insts {
		wg.Add(1)
		sem <- struct{}{}
		go func(i int) {
			defer wg.Done()
			defer func() { <-sem }()
			ti := time.Now()
			o := &instOutcome{}
			outs[i] = o
			defer func() {
				if e := recover(); e != nil {
					o.err = fmt.Errorf("engine panic: %v", e)
				}
				o.wall = time.Since(ti)
			}()
			x, err := L.Execute(insts[i])
			if err != nil {
				o.err = err
				return
			}
			r := eng.Discharge(x, insts[i], eng.SolveOpts{Solver: *solver, TimeoutMs: *timeoutMs})
			o.res = r
			if *xsolver != "" && r.Status == "pass" {
				r2 := eng.Discharge(x, insts[i], eng.SolveOpts{Solver: *xsolver, TimeoutMs: 120000})
				switch r2.Status {
				case "pass":
					o.xAgree = 1
				case "violation", "bound":
					o.xDisagree = fmt.Sprintf("%s says %s (%d violations)", *xsolver, r2.Status, len(r2.Violations))
				default:
					o.xUnknown = 1
				}
			}
			if r.ReachModel != nil {
				o.reachJob = x.BuildReplay(insts[i], r.ReachModel, fmt.Sprintf("%d/reach", i))
				o.reachJob.Expect = "reach"
			}
			for vi, v := range r.Violations {
				j := x.BuildReplay(insts[i], v.Model, fmt.Sprintf("%d/viol%d", i, vi))
				j.Expect = v.Oblig.Msg
				j.ExpKind = v.Oblig.Kind
				o.violJobs = append(o.violJobs, j)
				o.violObl = append(o.violObl, v.Oblig)
			}
			if *verbose {
				fmt.Printf("  [%s] %s  (%v, solver %v, %d queries)\n", r.Status, insts[i].Name, o.wall.Round(time.Millisecond), r.SolverTime.Round(time.Millisecond), r.Queries)
			}
		}(i)
	}
	wg.Wait()

	// native replays in one batch
	var jobs []*eng.ReplayJob
	for _, o := range outs {
		if o.reachJob != nil {
			jobs = append(jobs, o.reachJob)
		}
		jobs = append(jobs, o.violJobs...)
	}
	var nouts map[string]*eng.ReplayOut
	nativeLog := ""
	var nerr error
	if !*noReplay {
		var plain, racy []*eng.ReplayJob
		for _, j := range jobs {
			if j.ExpKind == "race" {
				// race replays run genuinely parallel under the race detector
				j.VisAll, j.Sched, j.Repeat = true, nil, 50
				racy = append(racy, j)
			} else {
				plain = append(plain, j)
			}
		}
		nouts, nativeLog, nerr = eng.RunNative(L, harnessDir(), plain, false)
		for _, j := range racy {
			o2, l2, e2 := eng.RunNative(L, harnessDir(), []*eng.ReplayJob{j}, true)
			nativeLog += l2
			if e2 != nil && nerr == nil {
				nerr = e2
			}
			for k, v := range o2 {
				nouts[k] = v
			}
		}
	}
	if nerr != nil {
		fmt.Println("native replay failed:", nerr)
		fmt.Println(nativeLog)
	}

	known := loadKnown()
	exit := 0
	bad := func(code int) {
		if code > exit {
			// 1 (violation) dominates 2 only if nothing is broken; broken run is 2
			exit = code
		}
	}
	var (
		violations, knownHits, inconclusive int
		queries, unsat, sat, unknown       int
		solverS                            float64
		validated, reachSat, reachTotal    int
		nontrivial                         int
		funcs                              = map[string]string{}
		assumes                            = map[string]bool{}
		samples                            []interface{}
		terms, instrs                      int
		oblig                              int
		notes                              []string
		xAgreeN, xUnknownN                 int
	)
	replayDir := filepath.Join(verifDir, "replays", id)
	for i, o := range outs {
		name := insts[i].Name
		if o.err != nil {
			fmt.Printf("INCONCLUSIVE %s: engine error: %v\n", name, o.err)
			inconclusive++
			bad(2)
			continue
		}
		r := o.res
		xAgreeN += o.xAgree
		xUnknownN += o.xUnknown
		if o.xDisagree != "" {
			fmt.Printf("INCONCLUSIVE %s: solvers disagree: %s\n", name, o.xDisagree)
			inconclusive++
			bad(2)
		}
		if r.ModelBad != "" {
			fmt.Printf("INCONCLUSIVE %s: %s\n", name, r.ModelBad)
			inconclusive++
			bad(2)
		}
		queries += r.Queries
		unsat += r.Unsat
		sat += r.Sat
		unknown += r.Unknown
		solverS += r.SolverTime.Seconds()
		reachSat += r.ReachSat
		reachTotal += r.ReachTotal
		terms += r.Terms
		instrs += r.NInstr
		oblig += r.NOblig
		for k, v := range r.Funcs {
			funcs[k] = v
		}
		for _, a := range r.AssumeTxt {
			assumes[a] = true
		}
		if r.ReachSat > 0 && r.FreeVars > 0 {
			nontrivial++
		}
		// encoder validation on the reach witness
		if o.reachJob != nil && nouts != nil {
			no := nouts[o.reachJob.ID]
			switch {
			case no == nil:
				fmt.Printf("INCONCLUSIVE %s: reach witness was not replayed natively\n", name)
				inconclusive++
				bad(2)
			case no.AssumeViolated:
				fmt.Printf("INCONCLUSIVE %s: native replay of the reach witness violates a harness assumption (encoder/stub mismatch)\n", name)
				if os.Getenv("GSX_DEBUG") != "" {
					jb, _ := json.MarshalIndent(o.reachJob, "", " ")
					os.WriteFile(fmt.Sprintf("/tmp/reachfail_%s.json", sanitize(name)), jb, 0o644)
				}
				inconclusive++
				bad(2)
			default:
				if ok, detail := eng.CompareObserved(o.reachJob, no); !ok {
					fmt.Printf("INCONCLUSIVE %s: formula and native build disagree: %s\n", name, detail)
					if os.Getenv("GSX_DEBUG") != "" {
						jb, _ := json.MarshalIndent(o.reachJob, "", " ")
						os.WriteFile(fmt.Sprintf("/tmp/reachfail_%s.json", sanitize(name)), jb, 0o644)
					}
					if *verbose {
						fmt.Printf("   inputs: %v\n   predicted: %v\n   native: %v\n   failures: %v\n", o.reachJob.Inputs, o.reachJob.Predicted, no.Observed, no.Failures)
					}
					inconclusive++
					bad(2)
				} else {
					validated++
					if len(samples) < 4 {
						samples = append(samples, map[string]interface{}{"instance": name, "witness": r.ReachLabel, "inputs": o.reachJob.Inputs, "sched": o.reachJob.Sched, "observed_natively": no.Observed})
					}
				}
			}
		}
		switch r.Status {
		case "pass":
		case "violation":
			type unc struct{ msg, why string }
			var unconfirmed []unc
			confirmedHere := 0
			for vi, ob := range o.violObl {
				job := o.violJobs[vi]
				confirmed := false
				why := "not replayed"
				if nouts != nil {
					if no := nouts[job.ID]; no != nil {
						confirmed, why = confirms(job, no)
						if !confirmed {
							_, d := eng.CompareObserved(job, no)
							why += "; " + d
						}
					}
				}
				if !confirmed {
					unconfirmed = append(unconfirmed, unc{ob.Msg, why})
					if os.Getenv("GSX_DEBUG") != "" {
						jb, _ := json.MarshalIndent(job, "", " ")
						os.WriteFile(fmt.Sprintf("/tmp/unconfirmed_%s_%d.json", sanitize(name), vi), jb, 0o644)
						nb, _ := json.MarshalIndent(nouts[job.ID], "", " ")
						os.WriteFile(fmt.Sprintf("/tmp/unconfirmed_%s_%d.out.json", sanitize(name), vi), nb, 0o644)
					}
					continue
				}
				confirmedHere++
				if ke := matchKnown(known, id, name, ob.Msg); ke != nil {
					fmt.Printf("KNOWN-FINDING: property=%s %s [%s: %s]\n", id, ke.What, name, ob.Msg)
					knownHits++
					continue
				}
				os.MkdirAll(replayDir, 0o755)
				p := filepath.Join(replayDir, sanitize(name)+fmt.Sprintf("_%d.json", vi))
				jb, _ := json.MarshalIndent(job, "", " ")
				os.WriteFile(p, jb, 0o644)
				fmt.Printf("VIOLATION property=%s replay=%s\n", id, p)
				fmt.Printf("  instance %s: %s: %s (%s)\n  native: %s\n", name, ob.Kind, ob.Msg, ob.Pos, why)
				violations++
				if exit != 2 {
					exit = 1
				}
			}
			for _, u := range unconfirmed {
				if confirmedHere > 0 {
					// the same run already failed natively at an earlier point: secondary symptom
					fmt.Printf("  note %s: further counterexample for %q not separately reproduced (%s)\n", name, u.msg, u.why)
					continue
				}
				fmt.Printf("INCONCLUSIVE %s: solver counterexample for %q did not reproduce natively (%s)\n", name, u.msg, u.why)
				inconclusive++
				bad(2)
			}
		default:
			fmt.Printf("INCONCLUSIVE %s: %s: %s\n", name, r.Status, r.Err)
			for _, ob := range r.Unknowns {
				fmt.Printf("   undecided: %s: %s (%s)\n", ob.Kind, ob.Msg, ob.Pos)
			}
			inconclusive++
			bad(2)
		}
	}
	if *noReplay {
		notes = append(notes, "native replay skipped: this run is not a pass")
		bad(2)
	}
	if nerr != nil {
		bad(2)
	}
	if exit == 2 && violations > 0 {
		// a broken run never reports pass; violations already printed
	}
	if len(samples) == 0 {
		samples = append(samples, map[string]interface{}{"note": "no reach witness replayed"})
	}
	// evidence
	fnames := make([]string, 0, len(funcs))
	for k, v := range funcs {
		if strings.Contains(k, "fufuok/cache") && !strings.Contains(k, ".Vx") && !strings.Contains(k, "vx") {
			fnames = append(fnames, k+" @ "+strings.TrimPrefix(v, "/repo/"))
		}
	}
	sort.Strings(fnames)
	var asl []string
	for a := range assumes {
		asl = append(asl, a)
	}
	sort.Strings(asl)
	asl = append(asl, spec.Stubs...)
	ev := map[string]interface{}{
		"property_id": id,
		"tier":        *tier,
		"seed":        seed,
		"level":       levelOf(spec),
		"wall_s":      time.Since(t0).Seconds(),
		"violations":  violations,
		"assumptions": asl,
		"coverage": map[string]interface{}{
			"technique":                     spec.Technique,
			"explanation":                   spec.Explain,
			"evaluations":                   queries,
			"distinct_nontrivial":           nontrivial,
			"rule":                          "one evaluation = one SMT query discharged; an instance is non-trivial when its reachability witness is satisfiable and its formula has free input variables",
			"states":                        max1(terms),
			"transitions":                   max1(instrs),
			"traces_validated_against_impl": validated,
			"samples":                       samples,
			"functions_encoded":             fnames,
			"bounds":                        spec.Bounds,
			"outside_the_claim":             spec.Outside,
			"instances":                     len(insts),
			"obligations":                   oblig,
			"queries":                       map[string]int{"discharged": queries, "unsat": unsat, "sat": sat, "unknown": unknown},
			"solver":                        *solver,
			"solver_s":                      solverS,
			"reach_witnesses":               map[string]int{"total": reachTotal, "sat": reachSat, "replayed_and_agreed": validated},
			"known_findings_hit":            knownHits,
			"cross_solver":                  map[string]interface{}{"solver": *xsolver, "instances_agreeing": xAgreeN, "instances_undecided_by_second_solver": xUnknownN},
			"inconclusive":                  inconclusive,
			"states_note":                   "states = SMT term-DAG nodes generated from go/ssa; transitions = SSA instruction instances executed symbolically",
			"notes":                         notes,
			"exit":                          exit,
		},
	}
	os.MkdirAll(evidenceDir(), 0o755)
	eb, _ := json.MarshalIndent(ev, "", " ")
	os.WriteFile(filepath.Join(evidenceDir(), id+".json"), eb, 0o644)
	fmt.Printf("%s %s: %d instances, %d queries (unsat %d, sat %d, unknown %d), solver %.1fs, wall %.1fs, validated %d, violations %d, known %d, inconclusive %d -> exit %d\n",
		id, *tier, len(insts), queries, unsat, sat, unknown, solverS, time.Since(t0).Seconds(), validated, violations, knownHits, inconclusive, exit)
	if *verbose && nativeLog != "" {
		fmt.Println(nativeLog)
	}
	return exit
}

func max1(n int) int {
	if n < 1 {
		return 1
	}
	return n
}

func sanitize(s string) string {
	r := strings.NewReplacer("/", "_", " ", "_", "=", "-", "(", "", ")", "", ",", "_", "|", "_")
	return r.Replace(s)
}

// confirms decides whether the native run reproduces the solver's counterexample.
func confirms(job *eng.ReplayJob, no *eng.ReplayOut) (bool, string) {
	if no.AssumeViolated {
		return false, "native run violates a harness assumption"
	}
	switch job.ExpKind {
	case "assert":
		for _, f := range no.Failures {
			if f == job.Expect {
				return true, "native assertion failed: " + f
			}
		}
		if no.Panic != "" {
			return false, "native run panicked instead: " + no.Panic
		}
		return false, fmt.Sprintf("native failures: %v", no.Failures)
	case "deadlock", "blocked":
		if no.Deadlock {
			return true, "native run deadlocked under the model's schedule"
		}
		return false, "native run did not deadlock"
	case "race":
		if no.Race {
			return true, "race detector reported"
		}
		return false, "race detector silent"
	default: // panic, nil, bounds, typeassert, unlock
		if no.Panic != "" {
			return true, "native panic: " + no.Panic
		}
		return false, "native run did not panic"
	}
}

func matchKnown(k KnownFindings, prop, inst, msg string) *KnownEntry {
	for i := range k.Open {
		e := &k.Open[i]
		if e.Property == prop && strings.HasPrefix(inst, e.Instance) && e.Message == msg {
			return e
		}
	}
	return nil
}


func levelOf(s *PropSpec) string {
	if s.Level != "" {
		return s.Level
	}
	return "model_checking"
}
