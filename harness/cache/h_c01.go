//go:build go1.21

package cache

import (
	"time"

	"github.com/fufuok/cache/internal/xsync"
)

// ---- reference TTL map (sequential specification written from cache.go's documentation) ----

type vxEnt struct {
	k  string
	v  interface{}
	e  int64
	ok bool
}

type vxRef struct {
	ents [3]vxEnt
	def  time.Duration
}

func (r *vxRef) find(k string) int {
	for i := 0; i < 3; i++ {
		if r.ents[i].ok && r.ents[i].k == k {
			return i
		}
	}
	return -1
}

// visible value at instant now
func (r *vxRef) get(k string, now int64) (interface{}, int64, bool) {
	i := r.find(k)
	if i < 0 {
		return nil, 0, false
	}
	e := r.ents[i].e
	if e > 0 && now > e {
		return nil, 0, false
	}
	return r.ents[i].v, e, true
}

func (r *vxRef) put(k string, v interface{}, e int64) {
	i := r.find(k)
	if i < 0 {
		for j := 0; j < 3; j++ {
			if !r.ents[j].ok {
				i = j
				break
			}
		}
	}
	r.ents[i] = vxEnt{k, v, e, true}
}

func (r *vxRef) del(k string) {
	i := r.find(k)
	if i >= 0 {
		r.ents[i].ok = false
	}
}

func (r *vxRef) exp(d time.Duration, now int64) int64 {
	if d == DefaultExpiration {
		d = r.def
	}
	if d > 0 {
		return now + int64(d)
	}
	return 0
}

func vxVal(name string) interface{} {
	if xsync.VxBool(name + ".nil") {
		return nil
	}
	return xsync.VxInt(name)
}

const (
	opSet = iota
	opSetDefault
	opSetForever
	opGet
	opGetWithExpiration
	opGetWithTTL
	opGetOrSet
	opGetAndSet
	opGetAndRefresh
	opGetOrCompute
	opCompute
	opGetAndDelete
	opDelete
	opDeleteExpired
	opClear
)

// vxCoupled: implementation and reference agree on key k from instant now on.
// genof
func vxCoupled(c *xsyncMap, r *vxRef, k string, now int64) bool {
	rv, re, rok := r.get(k, now)
	iv, ie, ok := vxPeek(c, k)
	if !ok {
		return !rok
	}
	if ie > 0 && now > ie {
		return !rok
	}
	return rok && iv == rv && ie == re
}

// genof
// vxC01Apply performs one call of method op on the cache and on the reference
// TTL map and asserts that everything the caller can observe agrees.
func vxC01Apply(c *xsyncMap, r *vxRef, op int, k1, k2, k string, nv interface{}, d time.Duration, del bool, now int64) {
	wv, we, wok := r.get(k, now)
	switch op {
	case opSet:
		c.Set(k, nv, d)
		r.put(k, nv, r.exp(d, now))
	case opSetDefault:
		c.SetDefault(k, nv)
		r.put(k, nv, r.exp(DefaultExpiration, now))
	case opSetForever:
		c.SetForever(k, nv)
		r.put(k, nv, 0)
	case opGet:
		v, ok := c.Get(k)
		xsync.VxAssert(ok == wok, "Get: ok flag")
		xsync.VxAssert(v == wv, "Get: value")
		if !wok {
			r.del(k)
		}
	case opGetWithExpiration:
		v, t, ok := c.GetWithExpiration(k)
		xsync.VxAssert(ok == wok && v == wv, "GetWithExpiration: value/ok")
		if wok && we > 0 {
			xsync.VxAssert(!xsync.VxTimeIsZero(t) && xsync.VxTimeNano(t) == we, "GetWithExpiration: instant is the stored one")
		} else {
			xsync.VxAssert(xsync.VxTimeIsZero(t), "GetWithExpiration: zero time when no expiry/absent")
		}
		if !wok {
			r.del(k)
		}
	case opGetWithTTL:
		v, ttl, ok := c.GetWithTTL(k)
		xsync.VxAssert(ok == wok && v == wv, "GetWithTTL: value/ok")
		if wok && we > 0 {
			xsync.VxAssert(int64(ttl) == we-now, "GetWithTTL: remaining time")
		} else if wok {
			xsync.VxAssert(ttl == NoExpiration, "GetWithTTL: NoExpiration for immortal entries")
		} else {
			xsync.VxAssert(ttl == 0, "GetWithTTL: 0 for absent")
		}
		if !wok {
			r.del(k)
		}
	case opGetOrSet:
		v, loaded := c.GetOrSet(k, nv, d)
		xsync.VxAssert(loaded == wok, "GetOrSet: loaded flag")
		if wok {
			xsync.VxAssert(v == wv, "GetOrSet: returns existing value")
		} else {
			xsync.VxAssert(v == nv, "GetOrSet: returns stored value")
			r.put(k, nv, r.exp(d, now))
		}
	case opGetAndSet:
		v, loaded := c.GetAndSet(k, nv, d)
		xsync.VxAssert(loaded == wok, "GetAndSet: loaded flag")
		if wok {
			xsync.VxAssert(v == wv, "GetAndSet: returns previous value")
		} else {
			xsync.VxAssert(v == nv, "GetAndSet: returns new value when nothing was visible")
		}
		r.put(k, nv, r.exp(d, now))
	case opGetAndRefresh:
		v, loaded := c.GetAndRefresh(k, d)
		xsync.VxAssert(loaded == wok && v == wv, "GetAndRefresh: value/loaded")
		if wok {
			r.put(k, wv, r.exp(d, now))
		} else {
			r.del(k)
		}
	case opGetOrCompute:
		calls := 0
		v, loaded := c.GetOrCompute(k, func() interface{} { calls++; return nv }, d)
		xsync.VxAssert(loaded == wok, "GetOrCompute: loaded flag")
		if wok {
			xsync.VxAssert(v == wv && calls == 0, "GetOrCompute: hit returns existing value without calling fn")
		} else {
			xsync.VxAssert(v == nv && calls == 1, "GetOrCompute: miss calls fn once and returns its value")
			r.put(k, nv, r.exp(d, now))
		}
	case opCompute:
		calls := 0
		var gotOld interface{}
		var gotLoaded bool
		v, ok := c.Compute(k, func(old interface{}, loaded bool) (interface{}, bool) {
			calls++
			gotOld, gotLoaded = old, loaded
			return nv, del
		}, d)
		xsync.VxAssert(calls == 1, "Compute: fn called exactly once")
		xsync.VxAssert(gotLoaded == wok && gotOld == wv, "Compute: fn sees the visible value")
		if del {
			xsync.VxAssert(!ok && v == wv, "Compute(delete): returns old value, ok=false")
			r.del(k)
		} else {
			xsync.VxAssert(ok && v == nv, "Compute(store): returns new value, ok=true")
			r.put(k, nv, r.exp(d, now))
		}
	case opGetAndDelete:
		v, loaded := c.GetAndDelete(k)
		xsync.VxAssert(loaded == wok, "GetAndDelete: loaded flag (an expired entry is absent)")
		xsync.VxAssert(v == wv, "GetAndDelete: value")
		r.del(k)
	case opDelete:
		c.Delete(k)
		r.del(k)
	case opDeleteExpired:
		c.DeleteExpired()
		// no logical change: expired entries were invisible already
		_, _, ok1 := vxPeek(c, k1)
		_, _, rok1 := r.get(k1, now)
		xsync.VxAssert(ok1 == rok1, "DeleteExpired: physically present afterwards iff unexpired (k1)")
		_, _, ok2 := vxPeek(c, k2)
		_, _, rok2 := r.get(k2, now)
		xsync.VxAssert(ok2 == rok2, "DeleteExpired: physically present afterwards iff unexpired (k2)")
	case opClear:
		c.Clear()
		r.del(k1)
		r.del(k2)
	}
}

// VxH_C01_step: one call of method op from an arbitrary two-entry pre-state,
// arbitrary clock, arbitrary TTL argument; compared with the reference TTL map.
func VxH_C01_step(op int) {
	now := xsync.VxI64("now")
	xsync.VxAssume(now >= 0 && now < 1<<62)
	xsync.VxClockSet(now)
	def := time.Duration(xsync.VxI64("default"))
	c := vxNewCache(1, def, nil)
	r := &vxRef{def: def}
	k1, k2 := xsync.VxStr("k1"), xsync.VxStr("k2")
	xsync.VxAssume(k1 != k2)
	if xsync.VxBool("has1") {
		v, e := vxVal("pv1"), xsync.VxI64("pe1")
		xsync.VxAssume(e >= 0)
		vxPut(c, k1, v, e)
		r.put(k1, v, e)
	}
	if xsync.VxBool("has2") {
		v, e := vxVal("pv2"), xsync.VxI64("pe2")
		xsync.VxAssume(e >= 0)
		vxPut(c, k2, v, e)
		r.put(k2, v, e)
	}
	k := xsync.VxStr("k")
	nv := vxVal("nv")
	d := time.Duration(xsync.VxI64("d"))
	xsync.VxReach("pre-state built")

	vxC01Apply(c, r, op, k1, k2, k, nv, d, xsync.VxBool("del"), now)
	pv, pe, pok := vxPeek(c, k)
	xsync.VxObserve("post.ok", pok)
	if pok {
		xsync.VxObserve("post.v", pv)
		xsync.VxObserve("post.e", pe)
	}
	xsync.VxAssert(vxCoupled(c, r, k1, now), "post-state agrees with reference on k1")
	xsync.VxAssert(vxCoupled(c, r, k2, now), "post-state agrees with reference on k2")
	xsync.VxAssert(vxCoupled(c, r, k, now), "post-state agrees with reference on k")
	xsync.VxReach("end")
}


// VxH_C01_hist2: a history of two calls (every pair of a storing first call and any second call) and a
// symbolic clock advance in between, from an EMPTY cache built by the real
// constructor path - no coupling relation is assumed, every result is compared
// with the reference TTL map.
func VxH_C01_hist2(first, second int) {
	now := xsync.VxI64("now")
	xsync.VxAssume(now >= 0 && now < 1<<61)
	xsync.VxClockSet(now)
	def := time.Duration(xsync.VxI64("default"))
	c := vxNewCache(1, def, nil)
	r := &vxRef{def: def}
	k1, k2 := xsync.VxStr("k1"), xsync.VxStr("k2")
	xsync.VxAssume(k1 != k2)
	// step 0: a storing call so that something is there
	v0 := vxVal("v0")
	d0 := time.Duration(xsync.VxI64("d0"))
	vxC01Apply(c, r, first, k1, k2, k1, v0, d0, false, now)
	// clock advance, then a call with a symbolic selector among the reading / deleting methods
	now2 := xsync.VxI64("now2")
	xsync.VxAssume(now2 >= now && now2 < 1<<62)
	xsync.VxClockSet(now2)
	op2 := second
	k := xsync.VxStr("k")
	xsync.VxReach("first call done")
	vxC01Apply(c, r, op2, k1, k2, k, vxVal("nv"), time.Duration(xsync.VxI64("d")), xsync.VxBool("del"), now2)
	xsync.VxAssert(vxCoupled(c, r, k1, now2) && vxCoupled(c, r, k, now2), "after the history the contents agree with the reference")
	xsync.VxReach("end")
}
