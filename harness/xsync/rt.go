//go:build go1.21

package xsync

// Runtime of the vx* intrinsics. On the symbolic side (gsx) every call to a
// Vx* function is intercepted by name and these bodies are never executed; on
// the native side (replay) they read the solver's model from VxRT.

import (
	"encoding/json"
	"fmt"
	"os"
	"sync"
	"time"
	"unsafe"
)

type VxReplay struct {
	ID      string              `json:"id"`
	Harness string              `json:"harness"`
	Args    []int64             `json:"args"`
	Inputs  map[string][]uint64 `json:"inputs"`
	HashStr map[string]uint64   `json:"hashstr"`
	Hash2   map[string]uint64   `json:"hash2"`
	HashN   map[string]uint64   `json:"hashn"`
	Strings map[string]string   `json:"strings"`
	Sched   [][]int             `json:"sched"`
	Rounds  int                 `json:"rounds"`
	VisAll  bool                `json:"visall"`
	Repeat  int                 `json:"repeat"`

	Clock          int64
	mu             sync.Mutex
	pos            map[string]int
	Failures       []string
	Reached        []string
	Observed       []VxObs
	AssumeViolated bool
	cur            int // current thread (-1 outside VxPar)
	sch            *vxSched
}

type VxObs struct {
	Name string `json:"name"`
	Thr  int    `json:"thr"`
	Val  string `json:"val"`
}

type VxOut struct {
	ID             string   `json:"id"`
	Failures       []string `json:"failures"`
	Reached        []string `json:"reached"`
	Observed       []VxObs  `json:"observed"`
	AssumeViolated bool     `json:"assume_violated"`
	Panic          string   `json:"panic"`
	Deadlock       bool     `json:"deadlock"`
	Diverged       bool     `json:"diverged"`
}

// VxRunReplays runs every job in jobsFile through dispatch and writes the outcomes.
func VxRunReplays(jobsFile, outFile string, dispatch map[string]func([]int64)) {
	data, err := os.ReadFile(jobsFile)
	if err != nil {
		panic(err)
	}
	var jobs []*VxReplay
	if err := json.Unmarshal(data, &jobs); err != nil {
		panic(err)
	}
	var outs []VxOut
	for _, j := range jobs {
		j.cur = -1
		VxRT = j
		out := VxOut{ID: j.ID}
		done := make(chan struct{})
		go func() {
			defer close(done)
			defer func() {
				if e := recover(); e != nil {
					out.Panic = fmt.Sprint(e)
				}
			}()
			fn, ok := dispatch[j.Harness]
			if !ok {
				panic("no such harness: " + j.Harness)
			}
			n := j.Repeat
			if n < 1 {
				n = 1
			}
			for i := 0; i < n; i++ {
				j.pos = nil
				fn(j.Args)
			}
		}()
		select {
		case <-done:
		case <-time.After(8 * time.Second):
			// the harness hangs: a (self-)deadlock in sequential code or a lost wake-up
			out.Deadlock = true
		}
		j.mu.Lock()
		out.Failures, out.Reached, out.Observed, out.AssumeViolated = j.Failures, j.Reached, j.Observed, j.AssumeViolated
		if j.sch != nil {
			out.Deadlock = out.Deadlock || j.sch.deadlocked
			out.Diverged = j.sch.diverged
		}
		j.mu.Unlock()
		outs = append(outs, out)
		VxRT = nil
	}
	b, _ := json.Marshal(outs)
	if err := os.WriteFile(outFile, b, 0o644); err != nil {
		panic(err)
	}
}

var VxRT *VxReplay

func (r *VxReplay) next(name string) uint64 {
	r.mu.Lock()
	defer r.mu.Unlock()
	if r.pos == nil {
		r.pos = map[string]int{}
	}
	key := name
	if r.cur >= 0 {
		key = fmt.Sprintf("%s@t%d", name, r.cur)
	}
	i := r.pos[key]
	r.pos[key] = i + 1
	vs := r.Inputs[key]
	if i < len(vs) {
		return vs[i]
	}
	return 0
}

func VxU64(name string) uint64 { return VxRT.next(name) }
func VxI64(name string) int64  { return int64(VxRT.next(name)) }
func VxInt(name string) int    { return int(VxRT.next(name)) }
func VxU32(name string) uint32 { return uint32(VxRT.next(name)) }
func VxU8(name string) uint8   { return uint8(VxRT.next(name)) }
func VxBool(name string) bool  { return VxRT.next(name) != 0 }
func VxChoice(name string, n int) int { return int(VxRT.next(name)) }

// VxStr returns an abstract string: id 0 is "", id i is "s<i>" (or the
// program's own constant with that id).
func VxStr(name string) string { return VxStrOf(VxRT.next(name)) }

func VxStrOf(id uint64) string {
	if id == 0 {
		return ""
	}
	if s, ok := VxRT.Strings[fmt.Sprint(id)]; ok {
		return s
	}
	return fmt.Sprintf("s%d", id)
}

func VxAssume(c bool) {
	if !c {
		VxRT.mu.Lock()
		VxRT.AssumeViolated = true
		VxRT.mu.Unlock()
	}
}

func VxAssert(c bool, msg string) {
	if !c {
		VxRT.mu.Lock()
		VxRT.Failures = append(VxRT.Failures, msg)
		VxRT.mu.Unlock()
	}
}

func VxReach(label string) {
	VxRT.mu.Lock()
	VxRT.Reached = append(VxRT.Reached, label)
	VxRT.mu.Unlock()
}

func VxObserve(name string, v any) {
	VxRT.mu.Lock()
	VxRT.Observed = append(VxRT.Observed, VxObs{Name: name, Thr: VxRT.cur, Val: vxRender(v)})
	VxRT.mu.Unlock()
}

func vxRender(v any) string {
	switch t := v.(type) {
	case nil:
		return "nil"
	case bool:
		if t {
			return "1"
		}
		return "0"
	case string:
		return "str:" + t
	case int:
		return fmt.Sprint(uint64(t))
	case int64:
		return fmt.Sprint(uint64(t))
	case int32:
		return fmt.Sprint(uint64(uint32(t)))
	case int8:
		return fmt.Sprint(uint64(uint8(t)))
	case uint64:
		return fmt.Sprint(t)
	case uint32:
		return fmt.Sprint(uint64(t))
	case uint8:
		return fmt.Sprint(uint64(t))
	case uint:
		return fmt.Sprint(uint64(t))
	}
	return fmt.Sprintf("?%T", v)
}

func VxClockSet(ns int64) { VxRT.Clock = ns }
func VxClockFree(on bool) {}
func VxNow() int64        { return VxRT.Clock }

func VxHashU64(k uint64, seed uint64) uint64 {
	if h, ok := VxRT.Hash2[fmt.Sprintf("%d|%d", k, seed)]; ok {
		return h
	}
	return k*0x9E3779B97F4A7C15 ^ seed
}

func VxHashStr(s string, seed uint64) uint64 {
	if h, ok := VxRT.HashStr[fmt.Sprintf("%s|%d", s, seed)]; ok {
		return h
	}
	h := seed ^ 0xcbf29ce484222325
	for i := 0; i < len(s); i++ {
		h = (h ^ uint64(s[i])) * 0x100000001b3
	}
	return h
}

func VxNote(s string) {}

// VxPar and VxYield are defined in sched.go (cooperative replay scheduler).

func VxTimeIsZero(t time.Time) bool { return t.IsZero() }
func VxTimeNano(t time.Time) int64  { return t.UnixNano() }

// VxSpawned: number of goroutines the code under test has started so far
// (symbolic side: counted `go` statements; native side: the model's value).
func VxSpawned() int { return int(VxRT.next("vx.spawned")) }

// VxHashPtr: hash of a pointer key by its identity.
func VxHashPtr(p unsafe.Pointer, seed uint64) uint64 {
	if p == nil {
		return VxHashU64(0, seed)
	}
	// native: identify the harness' pointer cells by index so that the model's table applies
	for i := range vxPtrCells {
		if p == unsafe.Pointer(&vxPtrCells[i]) {
			return VxHashU64(uint64(i+1), seed)
		}
	}
	return VxHashU64(uint64(uintptr(p)), seed)
}

// ---- structural intrinsics used by the janitor harness (C15). On the native
// side the goroutine really runs; the harness passes what one tick / the
// finalizer does as a fallback, and structural facts come from the model.
func VxRunSpawned(i int, fallback func()) {
	if fallback != nil {
		fallback()
	}
}
func VxRunFinalizer(i int, fallback func()) {
	if fallback != nil {
		fallback()
	}
}
func VxSpawnReaches(i int, p any) bool { return VxRT.next("vx.reaches") != 0 }
func VxFinalizerOn(p any) bool         { return VxRT.next("vx.finalizer") != 0 }
func VxChanClosed(ch any) bool         { return VxRT.next("vx.closed") != 0 }
func VxTickerNanos() int64             { return int64(VxRT.next("vx.ticker")) }
