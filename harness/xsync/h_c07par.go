//go:build go1.21

package xsync

// C07(b): a traversal concurrent with one writer, symbolic schedule.
// No key is visited twice; every visited pair carries a value that was stored
// under that key (its pre-state value or the value the writer writes); every
// pre-state key the writer does not touch is visited exactly once.

func VxH_Map_rangePar(opB, tableLen, chain, minLen, mode int) {
	m, c := vxArbMap(tableLen, chain, minLen)
	if mode >= 0 {
		VxAssume(c.count() <= mode)
	}
	kB := VxStr("kB")
	nvB := VxInt("nvB")
	delB := VxBool("delB")
	for i := 0; i < vxMaxEnt-4; i++ {
		VxAssume(!c.ok[i] || c.v[i] != interface{}(nvB))
	}
	var vk [4]string
	var vv [4]interface{}
	visits := 0
	VxReach("pre-state built")
	VxPar(
		func() {
			m.Range(func(k string, v interface{}) bool {
				if visits < 4 {
					vk[visits], vv[visits] = k, v
				}
				visits++
				return true
			})
		},
		func() { vxMapDo(m, opB, kB, nvB, delB) },
	)
	VxReach("both threads finished")
	VxObserve("visits", visits)
	VxAssert(visits <= 4, "Range: no more visits than keys ever present")
	for i := 0; i < 4; i++ {
		if i < visits {
			for j := 0; j < i; j++ {
				VxAssert(vk[j] != vk[i], "Range: no key visited twice")
			}
			pv, pok := c.get(vk[i])
			fromPre := pok && vv[i] == pv
			fromB := vk[i] == kB && vv[i] == interface{}(nvB)
			VxAssert(fromPre || fromB, "Range: every visited pair was stored under that key (pre-state value or the concurrent writer's)")
		}
	}
	for s := 0; s < vxMaxEnt-4; s++ {
		if c.ok[s] && (c.k[s] != kB || opB == mopLoad) && opB != mopClear {
			n := 0
			for i := 0; i < 4; i++ {
				if i < visits && vk[i] == c.k[s] {
					n++
				}
			}
			VxAssert(n == 1, "Range: a key that stays present for the whole traversal is visited exactly once")
		}
	}
}
