package eng

import (
	"fmt"
	"go/types"
	"math"
	"sort"

	"golang.org/x/tools/go/ssa"
)

// Value is a symbolic Go value:
//   *Term    bool / integer / string id (BV16) / float bits
//   PtrV     pointer or unsafe.Pointer or uintptr-holding-a-pointer
//   AggV     struct / array / tuple (component-wise)
//   IfaceV   interface value (tagged union)
//   SliceV   slice header
//   FuncV    function value (guarded alternatives)
//   MapV     builtin map (association list object)
//   FloatV   float64 (guarded concrete alternatives)
//   OpaqueV  chan and other uninterpreted handles
type Value interface{}

const StrW = 16 // width of abstract string ids

type PAlt struct {
	G    *Term
	Addr int
}

// PtrV: mutually exclusive guarded alternatives; if no guard holds the pointer is nil.
type PtrV struct {
	Alts []PAlt
}

type AggV struct {
	Elems []Value
}

type IfaceV struct {
	Tag *Term // BV16 type id; 0 = nil interface
	Pay map[int]Value
}

type SliceV struct {
	Base   PtrV
	Len    *Term // BV64
	Cap    *Term // BV64
	Stride int   // cells per element
	MaxLen int   // concrete upper bound on Len
	MaxCap int
}

type FAlt struct {
	G     *Term
	Fn    *ssa.Function
	Binds []Value
	Stub  string // non-empty: engine-provided function (e.g. "hasher")
}

type FuncV struct {
	Alts []FAlt
}

type FlAlt struct {
	G *Term
	F float64
}

type FloatV struct {
	Alts []FlAlt // exclusive, exhaustive under reachable guards
}

type MapV struct {
	Ref *MapObj
}

type MapEntry struct {
	G    *Term // present
	K, V Value
}

type MapObj struct {
	Entries []MapEntry
	KT, VT  types.Type
}

type OpaqueV struct {
	What string
	ID   int
}

// ---------- type registry (interface tags) ----------

type TypeReg struct {
	ids   map[string]int
	types []types.Type
}

func (r *TypeReg) ID(t types.Type) int {
	if r.ids == nil {
		r.ids = map[string]int{}
		r.types = []types.Type{nil}
	}
	k := types.TypeString(t, nil)
	if id, ok := r.ids[k]; ok {
		return id
	}
	id := len(r.types)
	r.ids[k] = id
	r.types = append(r.types, t)
	return id
}

func (r *TypeReg) Type(id int) types.Type {
	if id <= 0 || id >= len(r.types) {
		return nil
	}
	return r.types[id]
}

// ---------- layout: flatten a type to leaf cells ----------

func isLeaf(t types.Type) bool {
	switch u := t.Underlying().(type) {
	case *types.Struct, *types.Array:
		_ = u
		return false
	}
	return true
}

type layoutCache struct {
	n map[types.Type]int
}

func (x *Exec) cellsOf(t types.Type) int {
	if n, ok := x.lay.n[t]; ok {
		return n
	}
	var n int
	switch u := t.Underlying().(type) {
	case *types.Struct:
		for i := 0; i < u.NumFields(); i++ {
			n += x.cellsOf(u.Field(i).Type())
		}
	case *types.Array:
		n = int(u.Len()) * x.cellsOf(u.Elem())
	default:
		n = 1
	}
	x.lay.n[t] = n
	return n
}

func (x *Exec) fieldOffset(st *types.Struct, idx int) int {
	off := 0
	for i := 0; i < idx; i++ {
		off += x.cellsOf(st.Field(i).Type())
	}
	return off
}

// leafTypes lists the leaf types of t in cell order.
func (x *Exec) leafTypes(t types.Type, out []types.Type) []types.Type {
	switch u := t.Underlying().(type) {
	case *types.Struct:
		for i := 0; i < u.NumFields(); i++ {
			out = x.leafTypes(u.Field(i).Type(), out)
		}
	case *types.Array:
		for i := 0; i < int(u.Len()); i++ {
			out = x.leafTypes(u.Elem(), out)
		}
	default:
		out = append(out, t)
	}
	return out
}

// flatten splits a value of type t into its leaf values (cell order).
func (x *Exec) flatten(t types.Type, v Value, out []Value) []Value {
	switch u := t.Underlying().(type) {
	case *types.Struct:
		a := v.(AggV)
		for i := 0; i < u.NumFields(); i++ {
			out = x.flatten(u.Field(i).Type(), a.Elems[i], out)
		}
	case *types.Array:
		a := v.(AggV)
		for i := 0; i < int(u.Len()); i++ {
			out = x.flatten(u.Elem(), a.Elems[i], out)
		}
	default:
		out = append(out, v)
	}
	return out
}

// unflatten rebuilds a value of type t from leaves, returning the remainder.
func (x *Exec) unflatten(t types.Type, leaves []Value) (Value, []Value) {
	switch u := t.Underlying().(type) {
	case *types.Struct:
		a := AggV{Elems: make([]Value, u.NumFields())}
		for i := 0; i < u.NumFields(); i++ {
			a.Elems[i], leaves = x.unflatten(u.Field(i).Type(), leaves)
		}
		return a, leaves
	case *types.Array:
		n := int(u.Len())
		a := AggV{Elems: make([]Value, n)}
		for i := 0; i < n; i++ {
			a.Elems[i], leaves = x.unflatten(u.Elem(), leaves)
		}
		return a, leaves
	}
	return leaves[0], leaves[1:]
}

// ---------- widths / zero values ----------

func basicWidth(b *types.Basic) (w int, signed bool, ok bool) {
	switch b.Kind() {
	case types.Bool, types.UntypedBool:
		return 0, false, true
	case types.Int8:
		return 8, true, true
	case types.Int16:
		return 16, true, true
	case types.Int32, types.UntypedRune:
		return 32, true, true
	case types.Int, types.Int64, types.UntypedInt:
		return 64, true, true
	case types.Uint8:
		return 8, false, true
	case types.Uint16:
		return 16, false, true
	case types.Uint32:
		return 32, false, true
	case types.Uint, types.Uint64, types.Uintptr:
		return 64, false, true
	case types.String, types.UntypedString:
		return StrW, false, true
	}
	return 0, false, false
}

func isSigned(t types.Type) bool {
	if b, ok := t.Underlying().(*types.Basic); ok {
		_, s, _ := basicWidth(b)
		return s
	}
	return false
}

func isFloat(t types.Type) bool {
	if b, ok := t.Underlying().(*types.Basic); ok {
		return b.Info()&types.IsFloat != 0
	}
	return false
}

func isString(t types.Type) bool {
	if b, ok := t.Underlying().(*types.Basic); ok {
		return b.Info()&types.IsString != 0
	}
	return false
}

func isPointerLike(t types.Type) bool {
	switch u := t.Underlying().(type) {
	case *types.Pointer:
		return true
	case *types.Basic:
		return u.Kind() == types.UnsafePointer
	}
	return false
}

func (x *Exec) zero(t types.Type) Value {
	switch u := t.Underlying().(type) {
	case *types.Basic:
		if u.Kind() == types.UnsafePointer {
			return PtrV{}
		}
		if u.Info()&types.IsFloat != 0 {
			return FloatV{Alts: []FlAlt{{x.U.True, 0}}}
		}
		w, _, ok := basicWidth(u)
		if !ok {
			panic(fmt.Sprintf("zero: unsupported basic %v", u))
		}
		return x.U.Const(w, 0)
	case *types.Pointer:
		return PtrV{}
	case *types.Struct:
		a := AggV{Elems: make([]Value, u.NumFields())}
		for i := range a.Elems {
			a.Elems[i] = x.zero(u.Field(i).Type())
		}
		return a
	case *types.Array:
		a := AggV{Elems: make([]Value, int(u.Len()))}
		for i := range a.Elems {
			a.Elems[i] = x.zero(u.Elem())
		}
		return a
	case *types.Interface:
		return IfaceV{Tag: x.U.Const(16, 0)}
	case *types.Slice:
		z := x.U.Const(64, 0)
		return SliceV{Len: z, Cap: z, Stride: x.cellsOf(u.Elem())}
	case *types.Signature:
		return FuncV{}
	case *types.Map:
		return MapV{}
	case *types.Chan:
		return OpaqueV{What: "chan"}
	case *types.Tuple:
		a := AggV{Elems: make([]Value, u.Len())}
		for i := range a.Elems {
			a.Elems[i] = x.zero(u.At(i).Type())
		}
		return a
	}
	panic(fmt.Sprintf("zero: unsupported type %v", t))
}

// ---------- merging ----------

func (x *Exec) mergePtr(c *Term, a, b PtrV) PtrV {
	u := x.U
	if c.IsTrue() {
		return a
	}
	if c.IsFalse() {
		return b
	}
	m := map[int]*Term{}
	var order []int
	add := func(g *Term, addr int) {
		if g.IsFalse() {
			return
		}
		if old, ok := m[addr]; ok {
			m[addr] = u.Or(old, g)
		} else {
			m[addr] = g
			order = append(order, addr)
		}
	}
	nc := u.Not(c)
	for _, al := range a.Alts {
		add(u.And(c, al.G), al.Addr)
	}
	for _, al := range b.Alts {
		add(u.And(nc, al.G), al.Addr)
	}
	sort.Ints(order)
	r := PtrV{}
	for _, ad := range order {
		if !m[ad].IsFalse() {
			r.Alts = append(r.Alts, PAlt{m[ad], ad})
		}
	}
	return r
}

// Merge returns ite(c, a, b) on values.
func (x *Exec) Merge(c *Term, a, b Value) Value {
	if c.IsTrue() {
		return a
	}
	if c.IsFalse() {
		return b
	}
	u := x.U
	switch av := a.(type) {
	case *Term:
		bv, ok := b.(*Term)
		if !ok {
			// uintptr holding pointer vs integer: keep the pointer view
			if bp, ok := b.(PtrV); ok && av.IsConst() && av.Val == 0 {
				return x.mergePtr(c, PtrV{}, bp)
			}
			panic(fmt.Sprintf("merge: scalar vs %T", b))
		}
		return u.Ite(c, av, bv)
	case PtrV:
		switch bv := b.(type) {
		case PtrV:
			return x.mergePtr(c, av, bv)
		case *Term:
			if bv.IsConst() && bv.Val == 0 {
				return x.mergePtr(c, av, PtrV{})
			}
		}
		panic(fmt.Sprintf("merge: ptr vs %T", b))
	case AggV:
		bv := b.(AggV)
		r := AggV{Elems: make([]Value, len(av.Elems))}
		for i := range av.Elems {
			r.Elems[i] = x.Merge(c, av.Elems[i], bv.Elems[i])
		}
		return r
	case IfaceV:
		bv := b.(IfaceV)
		r := IfaceV{Tag: u.Ite(c, av.Tag, bv.Tag), Pay: map[int]Value{}}
		for k, v := range av.Pay {
			if w, ok := bv.Pay[k]; ok {
				r.Pay[k] = x.Merge(c, v, w)
			} else {
				r.Pay[k] = v
			}
		}
		for k, w := range bv.Pay {
			if _, ok := av.Pay[k]; !ok {
				r.Pay[k] = w
			}
		}
		return r
	case SliceV:
		bv := b.(SliceV)
		r := SliceV{Base: x.mergePtr(c, av.Base, bv.Base), Len: u.Ite(c, av.Len, bv.Len), Cap: u.Ite(c, av.Cap, bv.Cap),
			Stride: av.Stride, MaxLen: av.MaxLen, MaxCap: av.MaxCap}
		if r.Stride == 0 {
			r.Stride = bv.Stride
		}
		if bv.MaxLen > r.MaxLen {
			r.MaxLen = bv.MaxLen
		}
		if bv.MaxCap > r.MaxCap {
			r.MaxCap = bv.MaxCap
		}
		return r
	case FuncV:
		bv := b.(FuncV)
		r := FuncV{}
		nc := u.Not(c)
		for _, al := range av.Alts {
			g := u.And(c, al.G)
			if !g.IsFalse() {
				r.Alts = append(r.Alts, FAlt{G: g, Fn: al.Fn, Binds: al.Binds, Stub: al.Stub})
			}
		}
		for _, al := range bv.Alts {
			g := u.And(nc, al.G)
			if !g.IsFalse() {
				r.Alts = append(r.Alts, FAlt{G: g, Fn: al.Fn, Binds: al.Binds, Stub: al.Stub})
			}
		}
		return r
	case FloatV:
		bv := b.(FloatV)
		r := FloatV{}
		nc := u.Not(c)
		idx := map[uint64]int{}
		add := func(g *Term, f float64) {
			if g.IsFalse() {
				return
			}
			if i, ok := idx[math.Float64bits(f)]; ok {
				r.Alts[i].G = u.Or(r.Alts[i].G, g)
				return
			}
			idx[math.Float64bits(f)] = len(r.Alts)
			r.Alts = append(r.Alts, FlAlt{g, f})
		}
		for _, al := range av.Alts {
			add(u.And(c, al.G), al.F)
		}
		for _, al := range bv.Alts {
			add(u.And(nc, al.G), al.F)
		}
		return r
	case MapV:
		bv := b.(MapV)
		if av.Ref == bv.Ref {
			return av
		}
		if av.Ref == nil {
			return bv
		}
		if bv.Ref == nil {
			return av
		}
		panic("merge: distinct map objects")
	case OpaqueV:
		return av
	case nil:
		return b
	}
	panic(fmt.Sprintf("merge: unsupported %T", a))
}

// ptrNonNil is the condition under which p is non-nil.
func (x *Exec) ptrNonNil(p PtrV) *Term {
	r := x.U.False
	for _, a := range p.Alts {
		r = x.U.Or(r, a.G)
	}
	return r
}

func (x *Exec) ptrEq(a, b PtrV) *Term {
	u := x.U
	// equal iff both nil, or same address selected
	same := u.False
	for _, p := range a.Alts {
		for _, q := range b.Alts {
			if p.Addr == q.Addr {
				same = u.Or(same, u.And(p.G, q.G))
			}
		}
	}
	bothNil := u.And(u.Not(x.ptrNonNil(a)), u.Not(x.ptrNonNil(b)))
	return u.Or(same, bothNil)
}

func (x *Exec) ptrOffset(p PtrV, off int) PtrV {
	if off == 0 {
		return p
	}
	r := PtrV{Alts: make([]PAlt, len(p.Alts))}
	for i, a := range p.Alts {
		r.Alts[i] = PAlt{a.G, a.Addr + off}
	}
	return r
}

func asPtr(v Value) PtrV {
	switch p := v.(type) {
	case PtrV:
		return p
	case *Term:
		if p.IsConst() && p.Val == 0 {
			return PtrV{}
		}
	}
	panic(fmt.Sprintf("asPtr: %T", v))
}
