//go:build go1.21

package xsync

// Engine self-tests: small programs whose observations are compared between
// the formula (model evaluation) and the native build.

func VxH_T_loops() {
	n := VxChoice("n", 3)
	cnt := 0
	last := -1
	for r := 0; r < n+1; r++ {
		b := VxChoice("m", 3)
		for {
			for s := 0; s < 3; s++ {
				if VxBool("o") {
					cnt++
					last = r*10 + s
				}
			}
			if b == 0 {
				break
			}
			b--
		}
	}
	VxObserve("cnt", cnt)
	VxObserve("last", last)
	VxAssume(cnt == 7)
	VxReach("cnt7")
}
