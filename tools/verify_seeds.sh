#!/bin/bash
# Confirms every seeded change: applies to the commit it was written for, the library builds, the unedited
# suite passes, the demonstration fails with the change and passes without. Writes seeded/<id>/verify.txt.
export GOFLAGS=-mod=mod GOPROXY=off GOSUMDB=off GOTOOLCHAIN=local
BASE=${SEEDBASE:-5d3caec}
WT=/tmp/seedwt_$$
cd /repo && git worktree add -q --detach $WT $BASE || exit 2
for d in /verif/seeded/*/; do
  id=$(basename $d)
  [ -n "$1" ] && [ "$1" != "$id" ] && continue
  out=$d/verify.txt
  cd $WT && git checkout -q -- . && git clean -fdq
  demo=$(ls $d/*_test.go | head -1)
  # where does the demo belong?
  if grep -q "^package xsync" $demo; then ddir=internal/xsync; else ddir=.; fi
  cp $demo $WT/$ddir/zz_demo_test.go
  names=$(grep -oE "^func (Test[A-Za-z0-9_]+)" $demo | sed 's/func //' | paste -sd'|')
  race=""; grep -qi "race" $d/README.md && [ "${id:0:3}" = "C14" ] && race="-race"
  ( cd $WT/$ddir && timeout 300 go test -vet=off -count=1 $race -run "^($names)\$" . > /tmp/sv_clean.txt 2>&1 ); clean=$?
  if ! git apply $d/patch.diff 2>/tmp/sv_apply.txt; then echo "$id: patch does not apply to $BASE" | tee $out; continue; fi
  ( go build ./... > /tmp/sv_build.txt 2>&1 ); build=$?
  ( cd $WT/$ddir && timeout 300 go test -vet=off -count=1 $race -run "^($names)\$" . > /tmp/sv_mut.txt 2>&1 ); mut=$?
  rm -f $WT/$ddir/zz_demo_test.go
  ( timeout 600 go test -vet=off -count=1 ./... > /tmp/sv_suite.txt 2>&1 ); suite=$?
  head_ok=no; ( cd /repo && git apply --check $d/patch.diff 2>/dev/null ) && head_ok=yes
  echo "$id: build=$build suite_with_change=$suite demo_without_change=$clean demo_with_change=$mut applies_to_HEAD=$head_ok (exit codes; expected 0 0 0 non-zero)" | tee $out
done
cd /repo && git worktree remove --force $WT
