//go:build go1.21

package xsync

// Concurrent harnesses for MapOf[int,int] (generated from h_conc_map.go by tools/genconc.py): two threads, one operation each, from an
// arbitrary valid state; the schedule is symbolic (VxPar). Oracle:
// linearizability against the reference map = some order of the two
// operations explains every result and the quiescent final state.

type vxResOf struct {
	v      int
	ok     bool
	calls  int
	old    int
	oldOk  bool
	visits int
}

// vxMapDo performs op on the real map and records what the caller observes.
func vxMapOfDo(m *MapOf[int, int], op int, k int, nv int, del bool) vxResOf {
	var r vxResOf
	switch op {
	case mopLoad:
		r.v, r.ok = m.Load(k)
	case mopStore:
		m.Store(k, nv)
	case mopLoadOrStore:
		r.v, r.ok = m.LoadOrStore(k, nv)
	case mopLoadAndStore:
		r.v, r.ok = m.LoadAndStore(k, nv)
	case mopLoadOrCompute:
		r.v, r.ok = m.LoadOrCompute(k, func() int { r.calls++; return nv })
	case mopCompute:
		r.v, r.ok = m.Compute(k, func(old int, loaded bool) (int, bool) {
			r.calls++
			r.old, r.oldOk = old, loaded
			return nv, del
		})
	case mopLoadAndDelete:
		r.v, r.ok = m.LoadAndDelete(k)
	case mopDelete:
		m.Delete(k)
	case mopClear:
		m.Clear()
	case mopSize:
		r.visits = m.Size()
	case mopRange:
		m.Range(func(k int, v int) bool { r.visits++; return true })
	}
	return r
}

// vxRefDo is the sequential specification of the same operation on the reference content.
func vxRefDoOf(c *vxContentOf[int, int], op int, k int, nv int, del bool) vxResOf {
	var r vxResOf
	wv, wok := c.get(k)
	switch op {
	case mopLoad:
		r.v, r.ok = wv, wok
	case mopStore:
		c.put(k, nv)
	case mopLoadOrStore:
		if wok {
			r.v, r.ok = wv, true
		} else {
			r.v, r.ok = nv, false
			c.put(k, nv)
		}
	case mopLoadAndStore:
		if wok {
			r.v, r.ok = wv, true
		} else {
			r.v, r.ok = nv, false
		}
		c.put(k, nv)
	case mopLoadOrCompute:
		if wok {
			r.v, r.ok = wv, true
		} else {
			r.v, r.ok, r.calls = nv, false, 1
			c.put(k, nv)
		}
	case mopCompute:
		r.calls = 1
		r.old, r.oldOk = wv, wok
		if del {
			r.v, r.ok = wv, false
			c.del(k)
		} else {
			r.v, r.ok = nv, true
			c.put(k, nv)
		}
	case mopLoadAndDelete:
		r.v, r.ok = wv, wok
		c.del(k)
	case mopDelete:
		c.del(k)
	case mopClear:
		c.clear()
	case mopSize:
		r.visits = c.count()
	}
	return r
}

func vxResEqOf(a, b vxResOf) bool {
	return a.v == b.v && a.ok == b.ok && a.calls == b.calls && a.old == b.old && a.oldOk == b.oldOk && a.visits == b.visits
}

// vxFinalEq: the quiescent map state equals the reference content on every key in play.
func vxFinalEqOf(m *MapOf[int, int], c *vxContentOf[int, int], k1, k2 int) bool {
	ok := true
	for i := 0; i < vxMaxEnt-4; i++ {
		if c.ok[i] {
			v, present := m.Load(c.k[i])
			wv, wok := c.get(c.k[i])
			ok = ok && present == wok && v == wv
		}
	}
	v1, p1 := m.Load(k1)
	w1, wok1 := c.get(k1)
	v2, p2 := m.Load(k2)
	w2, wok2 := c.get(k2)
	return ok && p1 == wok1 && v1 == w1 && p2 == wok2 && v2 == w2 && m.Size() == c.count()
}

// VxH_Map_par2: A ∥ B.
func VxH_MapOf_par2(opA, opB, tableLen, chain, minLen, mode, slots int) {
	m, c := vxArbMapOf[int, int](tableLen, chain, minLen, slots, slots, VxIntHasher, vxIntKey, vxIntVal)
	kA, kB := VxInt("kA"), VxInt("kB")
	if mode >= 10 {
		// racers on one key
		VxAssume(kA == kB)
		mode -= 10
	}
	if mode >= 0 {
		// at most `mode` entries in the pre-state (mode < 0: unrestricted)
		VxAssume(c.count() <= mode)
	}
	nvA, nvB := VxInt("nvA"), VxInt("nvB")
	delA, delB := VxBool("delA"), VxBool("delB")
	// written values are distinguishable from each other and from the pre-state
	VxAssume(nvA != nvB)
	for i := 0; i < vxMaxEnt-4; i++ {
		VxAssume(!c.ok[i] || (c.v[i] != nvA && c.v[i] != nvB))
	}
	var rA, rB vxResOf
	VxReach("pre-state built")
	VxPar(
		func() { rA = vxMapOfDo(m, opA, kA, nvA, delA) },
		func() { rB = vxMapOfDo(m, opB, kB, nvB, delB) },
	)
	VxReach("both threads finished")
	VxObserve("A.ok", rA.ok)
	VxObserve("B.ok", rB.ok)
	// order A;B
	c1 := *c
	eA1 := vxRefDoOf(&c1, opA, kA, nvA, delA)
	eB1 := vxRefDoOf(&c1, opB, kB, nvB, delB)
	ab := vxResEqOf(rA, eA1) && vxResEqOf(rB, eB1) && vxFinalEqOf(m, &c1, kA, kB)
	// order B;A
	c2 := *c
	eB2 := vxRefDoOf(&c2, opB, kB, nvB, delB)
	eA2 := vxRefDoOf(&c2, opA, kA, nvA, delA)
	ba := vxResEqOf(rA, eA2) && vxResEqOf(rB, eB2) && vxFinalEqOf(m, &c2, kA, kB)
	VxAssert(ab || ba, "linearizable: some order of the two operations explains all results and the final state")
}

// VxH_Map_par12: A ∥ (B1; B2). Oracle: one of the three program-order
// respecting interleavings A B1 B2, B1 A B2, B1 B2 A explains everything.
func VxH_MapOf_par12(opA, opB1, opB2, tableLen, chain, minLen, mode, slots int) {
	m, c := vxArbMapOf[int, int](tableLen, chain, minLen, slots, slots, VxIntHasher, vxIntKey, vxIntVal)
	kA, kB1, kB2 := VxInt("kA"), VxInt("kB1"), VxInt("kB2")
	if mode >= 10 {
		VxAssume(kA == kB1 && kB1 == kB2)
		mode -= 10
	}
	if mode >= 0 {
		VxAssume(c.count() <= mode)
	}
	nvA, nvB1, nvB2 := VxInt("nvA"), VxInt("nvB1"), VxInt("nvB2")
	delA, delB1, delB2 := VxBool("delA"), VxBool("delB1"), VxBool("delB2")
	VxAssume(nvA != nvB1 && nvA != nvB2 && nvB1 != nvB2)
	for i := 0; i < vxMaxEnt-4; i++ {
		VxAssume(!c.ok[i] || (c.v[i] != nvA && c.v[i] != nvB1 && c.v[i] != nvB2))
	}
	var rA, rB1, rB2 vxResOf
	VxReach("pre-state built")
	VxPar(
		func() { rA = vxMapOfDo(m, opA, kA, nvA, delA) },
		func() {
			rB1 = vxMapOfDo(m, opB1, kB1, nvB1, delB1)
			rB2 = vxMapOfDo(m, opB2, kB2, nvB2, delB2)
		},
	)
	VxReach("both threads finished")
	VxObserve("A.ok", rA.ok)
	VxObserve("B1.ok", rB1.ok)
	VxObserve("B2.ok", rB2.ok)
	okAny := false
	for pos := 0; pos < 3; pos++ {
		cc := *c
		var eA, e1, e2 vxResOf
		if pos == 0 {
			eA = vxRefDoOf(&cc, opA, kA, nvA, delA)
		}
		e1 = vxRefDoOf(&cc, opB1, kB1, nvB1, delB1)
		if pos == 1 {
			eA = vxRefDoOf(&cc, opA, kA, nvA, delA)
		}
		e2 = vxRefDoOf(&cc, opB2, kB2, nvB2, delB2)
		if pos == 2 {
			eA = vxRefDoOf(&cc, opA, kA, nvA, delA)
		}
		fin := vxFinalEqOf(m, &cc, kA, kB1) && vxFinalEqOf(m, &cc, kB2, kB2)
		if vxResEqOf(rA, eA) && vxResEqOf(rB1, e1) && vxResEqOf(rB2, e2) && fin {
			okAny = true
		}
	}
	VxAssert(okAny, "linearizable: some order of A and B1;B2 explains all results and the final state")
}
