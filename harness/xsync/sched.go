//go:build go1.21

package xsync

type vxSched struct {
	deadlocked bool
}

// VxPar runs fs as threads. (native cooperative scheduler: TODO)
func VxPar(fs ...func()) {
	for _, f := range fs {
		f()
	}
}

func VxYield() {}
