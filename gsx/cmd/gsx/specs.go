package main

import (
	"fmt"

	"gsx/eng"
)

var cacheOps = []string{"Set", "SetDefault", "SetForever", "Get", "GetWithExpiration", "GetWithTTL", "GetOrSet", "GetAndSet",
	"GetAndRefresh", "GetOrCompute", "Compute", "GetAndDelete", "Delete", "DeleteExpired", "Clear"}

var commonStubs = []string{
	"stub: xsync.hashString = uninterpreted function of (string id, seed), with hashString(\"\", seed) = seed (every hash function, incl. fully colliding ones)",
	"stub: runtime_fastrand = arbitrary uint32 (table seeds are free variables); makeSeed's retry loop pruned to its first non-zero draw",
	"stub: time.Now/Until/Since read a virtual clock variable; time.Time abstracted to (isZero, unixNano)",
	"stub: sync/atomic.* = sequentially consistent single-step accesses; atomic.Value = one interface cell",
	"stub: strings are abstract 16-bit ids (only == and \"\" are observed by the code under test)",
}

func init() {
	register(&PropSpec{
		ID:        "C01",
		Technique: "bounded symbolic execution of go/ssa to QF_UFBV (z3): one inductive step per Cache method from an arbitrary 2-entry pre-state, symbolic clock/TTL, vs. reference TTL map; counterexamples replayed natively",
		Bounds:    map[string]interface{}{"keys": 3, "pre_state_entries": 2, "table_len": 1, "ops_per_step": 1, "clock": "[0,2^62)", "unwind_default": 4},
		Stubs:     commonStubs,
		Outside:   []string{"more than 2 stored entries per step", "clock beyond 2^62 ns", "tables longer than 1 bucket in this harness (bucket layout independence is C11)"},
		Quick: func() []eng.Instance {
			var is []eng.Instance
			for i, n := range cacheOps {
				is = append(is, eng.Instance{Name: fmt.Sprintf("C01/Cache/step/%s", n), Pkg: "cache", Func: "VxH_C01_step", Args: []int64{int64(i)}})
			}
			return is
		},
	})
}

func init() {
	register(&PropSpec{
		ID:        "selftest",
		Technique: "engine self-test",
		Quick: func() []eng.Instance {
			return []eng.Instance{
				{Name: "selftest/loops", Pkg: "xsync", Func: "VxH_T_loops", Cfg: eng.Config{DefaultUnwind: 8}},
			}
		},
	})
}

func init() {
	register(&PropSpec{
		ID:        "dbg",
		Technique: "debug",
		Quick: func() []eng.Instance {
			return []eng.Instance{
				{Name: "dbg/Map/Store", Pkg: "xsync", Func: "VxH_Map_step", Args: []int64{1, 1, 1, 1, 0}, Cfg: eng.Config{DefaultUnwind: 8}},
			}
		},
	})
}

var mapOps = []string{"Load", "Store", "LoadOrStore", "LoadAndStore", "LoadOrCompute", "Compute", "LoadAndDelete", "Delete", "Clear", "Range", "Size"}

type shape struct{ tableLen, chain, minLen, mode int }

func mapStepInstances(prefix, fn string, shapes []shape, ops []int) []eng.Instance {
	var is []eng.Instance
	for _, sh := range shapes {
		for _, op := range ops {
			is = append(is, eng.Instance{
				Name: fmt.Sprintf("%s/S(len=%d,chain=%d,min=%d,mode=%d)/%s", prefix, sh.tableLen, sh.chain, sh.minLen, sh.mode, mapOps[op]),
				Pkg:  "xsync", Func: fn, Args: []int64{int64(op), int64(sh.tableLen), int64(sh.chain), int64(sh.minLen), int64(sh.mode)},
				Cfg: eng.Config{DefaultUnwind: 8},
			})
		}
	}
	return is
}

func init() {
	allOps := []int{0, 1, 2, 3, 4, 5, 6, 7, 8, 9, 10}
	register(&PropSpec{
		ID:        "C11",
		Technique: "bounded symbolic execution of go/ssa to QF_UFBV: inductive step of every Map/MapOf operation from an arbitrary valid table state (all slot occupancies, hashes, seeds), incl. grow/shrink/Clear inside the step; representation invariant re-established; vs reference map",
		Bounds:    map[string]interface{}{"shapes(tableLen,chain,minTableLen)": "(1,1,1) (2,1,1) (1,2,1)", "ops_per_step": 1, "unwind_doCompute": 3, "unwind_default": 8},
		Stubs:     commonStubs,
		Outside:   []string{"tables longer than 2 buckets before / 4 after the step", "chains longer than 2 buckets in the pre-state", "size hints (constructor arithmetic) - separate harness"},
		Quick: func() []eng.Instance {
			return mapStepInstances("C11/Map/step", "VxH_Map_step", []shape{{1, 1, 1, 0}, {2, 1, 1, 1}, {1, 2, 1, 1}}, allOps)
		},
	})
}

func init() {
	register(&PropSpec{
		ID:        "dbgpar",
		Technique: "debug",
		Quick: func() []eng.Instance {
			return []eng.Instance{
				{Name: "dbgpar/Load||Delete;Store", Pkg: "xsync", Func: "VxH_Map_par12", Args: []int64{0, 7, 1, 1, 1, 1, 1}, Cfg: eng.Config{DefaultUnwind: 2, Rounds: 2}},
			}
		},
	})
}
