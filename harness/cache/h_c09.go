//go:build go1.21

package cache

import (
	"time"

	"github.com/fufuok/cache/internal/xsync"
)

// VxH_C09_ctor: every constructor variant with free default / cleanup
// arguments, an optional later SetDefaultExpiration, then store / refresh /
// read an entry with a free TTL argument at free instants; the stored
// expiration instant and everything reported about it are compared with the
// documented arithmetic.
func VxH_C09_ctor(variant, method int) {
	now := xsync.VxI64("now")
	xsync.VxAssume(now >= 0 && now < 1<<61)
	xsync.VxClockSet(now)
	d0 := time.Duration(xsync.VxI64("ctor.default"))
	ci := time.Duration(xsync.VxI64("ctor.cleanup"))
	var c Cache
	wantDef := d0
	wantJanitor := ci > 0
	switch variant {
	case 0:
		c = New(WithDefaultExpiration(d0), WithCleanupInterval(ci))
	case 1:
		c = NewDefault(d0, ci)
	case 2:
		c = New()
		wantDef, wantJanitor = NoExpiration, true
	case 3:
		c = New(WithCleanupInterval(ci), WithDefaultExpiration(d0), WithEvictedCallback(nil))
	}
	if wantDef < 1 {
		wantDef = NoExpiration
	}
	xsync.VxReach("constructed")
	xsync.VxAssert(c.DefaultExpiration() == wantDef, "constructor: default below 1ns is normalised to NoExpiration, otherwise kept")
	xsync.VxAssert((xsync.VxSpawned() == 1) == wantJanitor && xsync.VxSpawned() <= 1, "constructor: janitor started iff cleanup interval > 0")
	xsync.VxAssert(c.EvictedCallback() == nil, "constructor: no callback configured")
	inForce := wantDef
	if xsync.VxBool("setDefault") {
		d1 := time.Duration(xsync.VxI64("later.default"))
		c.SetDefaultExpiration(d1)
		inForce = d1
		xsync.VxAssert(c.DefaultExpiration() == d1, "SetDefaultExpiration is reported back")
	}
	k := xsync.VxStr("k")
	v, v2 := xsync.VxInt("v"), xsync.VxInt("v2")
	d := time.Duration(xsync.VxI64("d"))
	eff := d
	if d == DefaultExpiration {
		eff = inForce
	}
	wantE := int64(0)
	if eff > 0 {
		wantE = now + int64(eff)
	}
	// an earlier entry with another expiry, so that "re-arm" is observable
	if xsync.VxBool("pre") {
		c.Set(k, v2, time.Duration(xsync.VxI64("pre.d")))
	}
	preV, preT, preOK := c.GetWithExpiration(k)
	switch method {
	case 0:
		c.Set(k, v, d)
	case 1:
		c.GetAndSet(k, v, d)
	case 2:
		c.Compute(k, func(interface{}, bool) (interface{}, bool) { return v, false }, d)
	case 3: // GetAndRefresh keeps the value, re-arms the expiry (only when visible)
		c.GetAndRefresh(k, d)
	case 4: // GetOrSet: stores only on a miss
		c.GetOrSet(k, v, d)
	case 5:
		c.GetOrCompute(k, func() interface{} { return v }, d)
	case 6:
		if d == DefaultExpiration {
			c.SetDefault(k, v)
		} else {
			c.SetForever(k, v)
			wantE = 0
		}
	}
	gv, gt, gok := c.GetWithExpiration(k)
	_, ttl, tok := c.GetWithTTL(k)
	xsync.VxObserve("stored.ok", gok)
	stores := method <= 2 || method == 6 || ((method == 4 || method == 5) && !preOK)
	switch {
	case stores:
		xsync.VxAssert(gok && tok && gv == interface{}(v), "storing call leaves the new value visible")
		if wantE > 0 {
			xsync.VxAssert(!xsync.VxTimeIsZero(gt) && xsync.VxTimeNano(gt) == wantE, "expiry instant = call time + effective TTL (re-armed from this call)")
			xsync.VxAssert(int64(ttl) == wantE-now, "GetWithTTL = time remaining to that instant")
		} else {
			xsync.VxAssert(xsync.VxTimeIsZero(gt), "non-positive effective TTL: never expires (zero time)")
			xsync.VxAssert(ttl == NoExpiration, "non-positive effective TTL: GetWithTTL reports NoExpiration")
		}
	case method == 3 && preOK:
		xsync.VxAssert(gok && gv == preV, "GetAndRefresh keeps the value")
		if wantE > 0 {
			xsync.VxAssert(xsync.VxTimeNano(gt) == wantE && !xsync.VxTimeIsZero(gt), "GetAndRefresh re-arms the expiry from this call")
		} else {
			xsync.VxAssert(xsync.VxTimeIsZero(gt), "GetAndRefresh with non-positive TTL makes the entry immortal")
		}
	default:
		// hit in GetOrSet/GetOrCompute, or GetAndRefresh on an absent key: untouched
		xsync.VxAssert(gok == preOK && gv == preV, "non-storing call leaves value untouched")
		xsync.VxAssert(xsync.VxTimeIsZero(gt) == xsync.VxTimeIsZero(preT) && xsync.VxTimeNano(gt) == xsync.VxTimeNano(preT), "non-storing call leaves the expiry untouched")
	}
	// changing the default never alters stored entries; reads do not either
	c.SetDefaultExpiration(time.Duration(xsync.VxI64("after.default")))
	c.Get(k)
	_, gt2, gok2 := c.GetWithExpiration(k)
	xsync.VxAssert(gok2 == gok && xsync.VxTimeNano(gt2) == xsync.VxTimeNano(gt) && xsync.VxTimeIsZero(gt2) == xsync.VxTimeIsZero(gt), "SetDefaultExpiration and reads leave stored expiry untouched")
	// visibility around the computed instant
	later := xsync.VxI64("later")
	xsync.VxAssume(later >= now && later < 1<<62)
	xsync.VxClockSet(later)
	_, vis := c.Get(k)
	if gok {
		exp := !xsync.VxTimeIsZero(gt) && later > xsync.VxTimeNano(gt)
		xsync.VxAssert(vis == !exp, "entry is visible exactly until its instant has passed (strictly later)")
	}
	xsync.VxReach("end")
}
