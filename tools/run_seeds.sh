#!/bin/bash
# Runs the relevant checks against every seeded change and records the outcome in seeded/<id>/result.txt
cd /verif
declare -A MAP=(
 [C01-mutA]="C01 C12" [C01-mutB]="C01 C09 C12"
 [C02-mutA]="C02" [C02-mutB]="C02 C05"
 [C03-mutA]="C03 C08" [C03-mutB]="C03"
 [C04-mutA]="C04" [C04-mutB]="C11 C04"
 [C05-mutA]="C05 C11" [C05-mutB]="C05 C02"
 [C06-mutA]="C06" [C06-mutB]="C06 C13"
 [C07-mutA]="C07 C11" [C07-mutB]="C07"
 [C08-mutA]="C08 C03" [C08-mutB]="C08 C11"
 [C09-mutA]="C09 C01" [C09-mutB]="C09"
 [C10-mutA]="C10 C11" [C10-mutB]="C10"
 [C11-mutA]="C11" [C11-mutB]="C11"
 [C12-mutA]="C12 C06" [C12-mutB]="C12 C11"
 [C13-mutA]="C13 C11" [C13-mutB]="C13 C04"
 [C14-mutA]="C14" [C14-mutB]="C14"
 [C15-mutA]="C15 C09" [C15-mutB]="C15 C09"
 [C16-mutA]="C16" [C16-mutB]="C16 C01"
 [C02-mutC]="C05 C02" [C09-mutC]="C09" [C13-mutC]="C13 C06" [C06-mutC]="C06 C01" [C12-mutC]="C12 C07" [C16-mutC]="C16 C11" [C03-mutC]="C03" [C04-mutC]="C04" [C08-mutC]="C08"
)
for seed in $(ls seeded); do
  [ -n "$1" ] && [ "$1" != "$seed" ] && continue
  : > seeded/$seed/result.txt
  for prop in ${MAP[$seed]}; do
    out=$(./seedtest.sh $seed $prop 2>&1)
    line=$(echo "$out" | grep -E "quick:" | tail -1)
    nv=$(echo "$out" | grep -c "^VIOLATION")
    verdict="missed"; [ "$nv" -gt 0 ] && verdict="CAUGHT"
    echo "$out" | grep -q "INCONCLUSIVE" && [ "$nv" -eq 0 ] && verdict="inconclusive"
    first=$(echo "$out" | grep -m1 "^VIOLATION" | sed 's/.*replay=.verif.replays.//')
    echo "$seed $prop $verdict violations=$nv $first | $line" | tee -a seeded/$seed/result.txt
  done
done
