//go:build go1.21

package xsync

import (
	"sync"
	"sync/atomic"
	"unsafe"
)

// ---- arbitrary valid MapOf states ----

type vxContentOf[K comparable, V comparable] struct {
	k     [vxMaxEnt]K
	v     [vxMaxEnt]V
	ok    [vxMaxEnt]bool
	extra int
}

func vxNewContentOf[K comparable, V comparable]() *vxContentOf[K, V] {
	return &vxContentOf[K, V]{extra: vxMaxEnt - 4}
}

func (c *vxContentOf[K, V]) has(k K) bool {
	for i := 0; i < vxMaxEnt; i++ {
		if c.ok[i] && c.k[i] == k {
			return true
		}
	}
	return false
}

func (c *vxContentOf[K, V]) get(k K) (V, bool) {
	var v V
	found := false
	for i := 0; i < vxMaxEnt; i++ {
		if c.ok[i] && c.k[i] == k {
			v, found = c.v[i], true
		}
	}
	return v, found
}

func (c *vxContentOf[K, V]) put(k K, v V) {
	found := false
	for i := 0; i < vxMaxEnt; i++ {
		if c.ok[i] && c.k[i] == k {
			c.v[i] = v
			found = true
		}
	}
	if !found {
		c.k[c.extra], c.v[c.extra], c.ok[c.extra] = k, v, true
	}
	c.extra++
}

func (c *vxContentOf[K, V]) del(k K) {
	for i := 0; i < vxMaxEnt; i++ {
		if c.ok[i] && c.k[i] == k {
			c.ok[i] = false
		}
	}
}

func (c *vxContentOf[K, V]) clear() {
	for i := 0; i < vxMaxEnt; i++ {
		c.ok[i] = false
	}
}

func (c *vxContentOf[K, V]) count() int {
	n := 0
	for i := 0; i < vxMaxEnt; i++ {
		if c.ok[i] {
			n++
		}
	}
	return n
}

// vxArbMapOf: like vxArbMap for MapOf. slots limits how many of the 5 slots
// per bucket may be occupied symbolically (the rest are empty) to keep small
// instances small; slots=5 is the full bucket.
func vxArbMapOf[K comparable, V comparable](tableLen, chain, minLen, slots0, slots1 int, hasher func(K, uint64) uint64, kgen func(string) K, vgen func(string) V) (*MapOf[K, V], *vxContentOf[K, V]) {
	m := &MapOf[K, V]{}
	m.resizeCond = *sync.NewCond(&m.resizeMu)
	m.hasher = hasher
	m.minTableLen = minLen
	t := &mapOfTable[K, V]{
		buckets: make([]bucketOfPadded, tableLen),
		size:    make([]counterStripe, minMapCounterLen),
		seed:    VxU64("seed"),
	}
	c := vxNewContentOf[K, V]()
	slot := 0
	total := 0
	for r := 0; r < tableLen; r++ {
		b := &t.buckets[r]
		for ci := 0; ci < chain; ci++ {
			meta := defaultMeta
			slots := slots0
			if r > 0 {
				slots = slots1
			}
			nslots, forced := slots, false
			if slots < 0 {
				nslots, forced = -slots, true // concretely occupied slots
			}
			for s := 0; s < nslots; s++ {
				if forced || VxBool("occ") {
					e := new(entryOf[K, V])
					e.key = kgen("pk")
					e.value = vgen("pv")
					h := hasher(e.key, t.seed)
					VxAssume((h>>7)&uint64(tableLen-1) == uint64(r))
					for j := 0; j < slot; j++ {
						VxAssume(!c.ok[j] || c.k[j] != e.key)
					}
					b.entries[s] = unsafe.Pointer(e)
					meta = (meta &^ (0xff << (8 * s))) | ((h & 0x7f) << (8 * s))
					c.k[slot], c.v[slot], c.ok[slot] = e.key, e.value, true
					total++
				}
				slot++
			}
			b.meta = meta
			if ci+1 < chain {
				if !VxBool("more") {
					break
				}
				nb := new(bucketOfPadded)
				nb.meta = defaultMeta
				b.next = unsafe.Pointer(nb)
				b = nb
			}
		}
	}
	x := VxI64("stripe.transfer")
	from, to := VxChoice("stripe.from", minMapCounterLen), VxChoice("stripe.to", minMapCounterLen)
	VxAssume(from != to)
	t.size[from].c = int64(total) - x
	t.size[to].c = x
	atomic.StorePointer(&m.table, unsafe.Pointer(t))
	return m, c
}

func vxCheckMapOf[K comparable, V comparable](m *MapOf[K, V], want *vxContentOf[K, V], extraKey K) {
	VxAssert(atomic.LoadInt64(&m.resizing) == 0, "RI: resizing flag clear at rest")
	t := (*mapOfTable[K, V])(atomic.LoadPointer(&m.table))
	n := len(t.buckets)
	VxAssert(vxIsPow2(n) && n >= m.minTableLen, "RI: table length is a power of two >= minTableLen")
	cnt := 0
	for r := 0; r < n; r++ {
		b := &t.buckets[r]
		for {
			VxAssert(b.mu.TryLock(), "RI: every bucket mutex released")
			b.mu.Unlock()
			VxAssert(b.meta>>40 == 0x808080, "RI: unused meta bytes stay 0x80")
			for s := 0; s < entriesPerMapOfBucket; s++ {
				ep := b.entries[s]
				mb := uint8(b.meta >> (8 * s))
				VxAssert((ep == nil) == (mb == emptyMetaSlot), "RI: meta byte is 0x80 <=> slot empty")
				if ep != nil {
					e := (*entryOf[K, V])(ep)
					h := m.hasher(e.key, t.seed)
					VxAssert((h>>7)&uint64(n-1) == uint64(r), "RI: entry lives in the chain of its hash's root bucket")
					VxAssert(uint64(mb) == h&0x7f, "RI: meta byte equals the key's h2")
					wv, wok := want.get(e.key)
					VxAssert(wok && wv == e.value, "content: every stored pair is an entry of the reference map (nothing resurrected or mixed)")
					cnt++
				}
			}
			if b.next == nil {
				break
			}
			b = (*bucketOfPadded)(b.next)
		}
	}
	VxObserve("post.cnt", cnt)
	VxAssert(int(t.sumSize()) == cnt, "RI/C08: striped counter sum equals the number of stored entries")
	VxAssert(m.Size() == cnt, "C08: Size() equals the number of stored entries")
	VxAssert(cnt == want.count(), "content: number of stored entries equals the reference map's (nothing lost or duplicated)")
	for i := 0; i < vxMaxEnt; i++ {
		if want.ok[i] {
			lv, lok := m.Load(want.k[i])
			VxAssert(lok && lv == want.v[i], "content: Load finds every reference entry with its value")
		}
	}
	_, lok := m.Load(extraKey)
	VxAssert(want.has(extraKey) == lok, "content: Load(k) presence agrees with the reference map")
}

func vxMapOfApply[K comparable, V comparable](m *MapOf[K, V], c *vxContentOf[K, V], op int, k K, nv V, del bool) {
	wv, wok := c.get(k)
	var zero V
	switch op {
	case mopLoad:
		v, ok := m.Load(k)
		VxObserve("ok", ok)
		VxAssert(ok == wok && v == wv, "Load: result equals the reference map's")
	case mopStore:
		m.Store(k, nv)
		c.put(k, nv)
	case mopLoadOrStore:
		v, loaded := m.LoadOrStore(k, nv)
		VxObserve("ok", loaded)
		VxAssert(loaded == wok, "LoadOrStore: loaded flag")
		if wok {
			VxAssert(v == wv, "LoadOrStore: returns the existing value")
		} else {
			VxAssert(v == nv, "LoadOrStore: returns the stored value")
			c.put(k, nv)
		}
	case mopLoadAndStore:
		v, loaded := m.LoadAndStore(k, nv)
		VxObserve("ok", loaded)
		VxAssert(loaded == wok, "LoadAndStore: loaded flag")
		if wok {
			VxAssert(v == wv, "LoadAndStore: returns the previous value")
		} else {
			VxAssert(v == nv, "LoadAndStore: returns the given value when absent")
		}
		c.put(k, nv)
	case mopLoadOrCompute:
		calls := 0
		v, loaded := m.LoadOrCompute(k, func() V { calls++; return nv })
		VxObserve("ok", loaded)
		VxAssert(loaded == wok, "LoadOrCompute: loaded flag")
		if wok {
			VxAssert(v == wv && calls == 0, "LoadOrCompute: hit returns existing value, fn not called")
		} else {
			VxAssert(v == nv && calls == 1, "LoadOrCompute: miss calls fn exactly once and returns its value")
			c.put(k, nv)
		}
	case mopCompute:
		calls := 0
		var gotOld V
		var gotLoaded bool
		v, ok := m.Compute(k, func(old V, loaded bool) (V, bool) {
			calls++
			gotOld, gotLoaded = old, loaded
			return nv, del
		})
		VxObserve("ok", ok)
		VxAssert(calls == 1, "Compute: fn called exactly once")
		VxAssert(gotLoaded == wok && gotOld == wv, "Compute: fn sees the current value")
		if del {
			VxAssert(!ok, "Compute(delete): ok=false")
			if wok {
				VxAssert(v == wv, "Compute(delete) of a present key returns the old value")
			} else {
				VxAssert(v == zero, "Compute(delete) of an absent key returns the zero value")
			}
			c.del(k)
		} else {
			VxAssert(ok && v == nv, "Compute(store): returns new value, ok=true")
			c.put(k, nv)
		}
	case mopLoadAndDelete:
		v, loaded := m.LoadAndDelete(k)
		VxObserve("ok", loaded)
		VxAssert(loaded == wok && v == wv, "LoadAndDelete: result equals the reference map's")
		c.del(k)
	case mopDelete:
		m.Delete(k)
		c.del(k)
	case mopClear:
		m.Clear()
		c.clear()
	case mopSize:
		VxAssert(m.Size() == c.count(), "Size: equals the reference map's len")
	case mopRange:
		var seen [vxMaxEnt]bool
		visits := 0
		stopAt := VxInt("stopAt")
		m.Range(func(rk K, rv V) bool {
			visits++
			ev, eok := c.get(rk)
			VxAssert(eok && ev == rv, "Range: visited pair is an entry of the map")
			for i := 0; i < vxMaxEnt; i++ {
				if c.ok[i] && c.k[i] == rk {
					VxAssert(!seen[i], "Range: no key visited twice")
					seen[i] = true
				}
			}
			return visits != stopAt
		})
		VxObserve("visits", visits)
		if stopAt >= 1 && stopAt <= c.count() {
			VxAssert(visits == stopAt, "Range: stops immediately when the visitor returns false")
		} else {
			VxAssert(visits == c.count(), "Range: visits every entry exactly once")
		}
	}
}

func vxIntKey(name string) int { return VxInt(name) }
func vxIntVal(name string) int { return VxInt(name) }
func vxStrKey(name string) string { return VxStr(name) }

// VxH_MapOfII_step: MapOf[int,int], one operation from an arbitrary valid state.
func VxH_MapOfII_step(op, tableLen, chain, minLen, slots0, slots1 int) {
	m, c := vxArbMapOf[int, int](tableLen, chain, minLen, slots0, slots1, VxIntHasher, vxIntKey, vxIntVal)
	k := VxInt("k")
	nv := VxInt("nv")
	del := VxBool("del")
	VxReach("pre-state built")
	vxMapOfApply(m, c, op, k, nv, del)
	VxReach("operation returned")
	vxCheckMapOf(m, c, k)
}

// VxH_MapOfSA_step: MapOf[string,any].
func VxH_MapOfSA_step(op, tableLen, chain, minLen, slots0, slots1 int) {
	m, c := vxArbMapOf[string, any](tableLen, chain, minLen, slots0, slots1, VxStrHasher, vxStrKey, VxArbVal)
	k := VxStr("k")
	nv := VxArbVal("nv")
	del := VxBool("del")
	VxReach("pre-state built")
	vxMapOfApply(m, c, op, k, nv, del)
	VxReach("operation returned")
	vxCheckMapOf(m, c, k)
}
