//go:build go1.21

package xsync

// Native-only replacements of the environment functions that the symbolic
// side stubs: the string hash and the table seed come from the solver's model.

func hashString(s string, seed uint64) uint64 {
	if VxRT == nil {
		return hashString_orig(s, seed)
	}
	if s == "" {
		return seed
	}
	return VxHashStr(s, seed)
}

func makeSeed() uint64 {
	if VxRT == nil {
		return makeSeed_orig()
	}
	v := VxRT.next("makeseed")
	if v == 0 {
		return makeSeed_orig()
	}
	return v
}
