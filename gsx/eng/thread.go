package eng

import (
	"fmt"
	"go/token"
	"go/types"

	"golang.org/x/tools/go/ssa"
)

// Thread is the per-goroutine state of the round-based (Lazy-CSeq style)
// sequentialisation: the thread body is re-executed once per round; effects
// are enabled only for instructions whose dynamic visible-operation count C
// lies in the round's window [Lo,Hi). Results of memory reads persist across
// rounds in Regs.
type Thread struct {
	ID     int
	Round  int
	Lo, Hi *Term // BV16
	C      *Term // BV16 running count of visible operations on the current path
	CEnd   *Term
	Regs   map[string]Value
	Allocs map[string]int
	Maps   map[string]*MapObj
	Inputs map[string]thrInput
	ObsIdx map[string]int
	His    []*Term // Hi per round
	Ns     []*Term // budget variable per round
	// blocked: condition under which the thread's next operation is a
	// disabled blocking operation at the end of the run (deadlock queries)
	Blocked *Term
	BlockedAt []BlockRec
	NoWait  bool // this thread must never wait: a disabled blocking operation or a spin is a violation (C16 readers)
}

type BlockRec struct {
	Parked *Term         // thread is parked exactly here (path guard ∧ C == Hi_final)
	En     func() *Term  // enabledness re-evaluated in the final memory
	What   string
	Pos    string
}

type thrInput struct {
	t   *Term
	idx int
}

const cntW = 16

// inWin: window test for a visible operation (index C executes iff Lo <= C < Hi).
func (t *Thread) inWin(u *Univ) *Term {
	return u.And(u.Cmp(OUle, t.Lo, t.C), u.Cmp(OUlt, t.C, t.Hi))
}

// inWinPlain: plain (thread-local or lock-protected) code runs eagerly right
// after the visible operation that precedes it: count C belongs to the round
// that executed visible operation C-1; the code before the first visible
// operation runs when the thread is started.
func (t *Thread) inWinPlain(u *Univ) *Term {
	zero := u.Eq(t.C, u.Const(cntW, 0))
	first := u.Bool(t.Round == 1)
	return u.Or(u.And(zero, first), u.And(u.Cmp(OUlt, t.Lo, t.C), u.Cmp(OUle, t.C, t.Hi)))
}

// visible marks a scheduling point executed under path guard g.
func (x *Exec) visible(g *Term, what string) {
	if x.thr == nil {
		return
	}
	t := x.thr
	t.C = x.U.Ite(g, x.U.BV(OAdd, t.C, x.U.Const(cntW, 1)), t.C)
	x.vis = false
}

// beginVis: the following effects belong to a visible operation.
func (x *Exec) beginVis() {
	if x.thr != nil {
		x.vis = true
	}
}

// persist keeps the result of an impure read across rounds.
func (x *Exec) persist(f *frame, ins ssa.Instruction, g *Term, v Value) Value {
	if x.thr == nil || f == nil {
		return v
	}
	k := f.key(x, ins)
	a := x.act(g)
	if prev, ok := x.thr.Regs[k]; ok {
		v = x.Merge(a, v, prev)
	}
	x.thr.Regs[k] = v
	return v
}

// blocking: the operation is enabled iff en. In safety mode a disabled
// execution is pruned (an equivalent run schedules the thread later); the
// parked state is recorded for deadlock queries.
func (x *Exec) blocking(g *Term, en *Term, enLater func() *Term, what string, pos token.Pos) {
	if x.thr == nil {
		if !en.IsTrue() {
			x.oblige("deadlock", x.U.And(g, x.U.Not(en)), what+" would block forever in sequential code", pos)
		}
		return
	}
	t := x.thr
	if t.NoWait {
		x.oblige("blocked", x.U.And(g, x.U.Not(en)), what+": a reader would have to wait for a stalled writer", pos)
		return
	}
	x.Assume(g, en, "")
	// parked here at the end of the run: path reaches this op, C == final Hi
	if t.Round == x.Cfg.Rounds && enLater != nil {
		parked := x.U.AndN(g, x.U.Eq(t.C, t.Hi))
		t.BlockedAt = append(t.BlockedAt, BlockRec{Parked: parked, En: enLater, What: what, Pos: x.pos(pos)})
	}
}

func (x *Exec) condWait(f *frame, ins ssa.Instruction, p PtrV, g *Term) {
	u := x.U
	lp, gp := x.condCells(p)
	liv := x.loadRaw(lp, types.NewInterfaceType(nil, nil)).(IfaceV)
	// the Locker is a *sync.Mutex in all code under test
	var mu PtrV
	for id, pv := range liv.Pay {
		if pp, ok := pv.(PtrV); ok {
			mu = x.mergePtr(u.Eq(liv.Tag, u.Const(16, uint64(id))), pp, mu)
		}
	}
	if x.thr == nil {
		x.oblige("deadlock", g, "Cond.Wait in sequential code would block forever", ins.Pos())
		return
	}
	i32 := types.Typ[types.Int32]
	u32 := types.Typ[types.Uint32]
	// step A: atomically unlock L and remember the generation
	x.beginVis()
	x.raceAccess(gp, 1, g, false, true, ins.Pos())
	st := x.loadRaw(mu, i32).(*Term)
	x.oblige("unlock", u.And(g, u.Eq(st, u.Const(32, 0))), "Cond.Wait with L not held", ins.Pos())
	x.storeRaw(mu, i32, u.Const(32, 0), x.act(g))
	gen0 := x.persist(f, ins, g, x.loadRaw(gp, u32)).(*Term)
	x.visible(g, "Cond.Wait/park")
	// step B: resume when the generation moved and L is free
	gen1 := x.loadRaw(gp, u32).(*Term)
	st1 := x.loadRaw(mu, i32).(*Term)
	en := u.And(u.Not(u.Eq(gen1, gen0)), u.Eq(st1, u.Const(32, 0)))
	x.beginVis()
	later := func() *Term {
		g1 := x.loadRaw(gp, u32).(*Term)
		s1 := x.loadRaw(mu, i32).(*Term)
		return u.And(u.Not(u.Eq(g1, gen0)), u.Eq(s1, u.Const(32, 0)))
	}
	x.blocking(g, en, later, "Cond.Wait (waiting for Broadcast)", ins.Pos())
	x.storeRaw(mu, i32, u.Const(32, 1), x.act(g))
	x.visible(g, "Cond.Wait/resume")
}

// par runs the closures in fs as concurrently scheduled threads.
func (x *Exec) par(f *frame, ins ssa.Instruction, fs SliceV, g *Term) {
	u := x.U
	if x.thr != nil {
		x.fail("nested VxPar")
	}
	if !fs.Len.IsConst() {
		x.fail("VxPar with symbolic thread count")
	}
	n := int(fs.Len.Val)
	R := x.Cfg.Rounds
	if R < 1 {
		R = 2
	}
	x.Cfg.Rounds = R
	sigT := types.NewSignatureType(nil, nil, nil, nil, nil, false)
	var thrs []*Thread
	fvs := make([]FuncV, n)
	for i := 0; i < n; i++ {
		fvs[i] = x.loadRaw(x.ptrOffset(fs.Base, i*fs.Stride), sigT).(FuncV)
		t := &Thread{ID: len(x.Threads) + i, Regs: map[string]Value{}, Allocs: map[string]int{}, Inputs: map[string]thrInput{}, ObsIdx: map[string]int{},
			Hi: u.Const(cntW, 0)}
		thrs = append(thrs, t)
	}
	base := len(x.Threads)
	x.Threads = append(x.Threads, thrs...)
	for r := 1; r <= R; r++ {
		for i, t := range thrs {
			t.Round = r
			t.Lo = t.Hi
			nv := u.Var(fmt.Sprintf("sched.t%d.r%d", base+i, r), 8)
			t.Ns = append(t.Ns, nv)
			t.Hi = u.BV(OAdd, t.Lo, u.Zext(nv, cntW))
			t.His = append(t.His, t.Hi)
			t.C = u.Const(cntW, 0)
			t.BlockedAt = nil
			x.thr = t
			if len(fvs[i].Alts) != 1 {
				x.fail("VxPar thread %d is not a single closure", i)
			}
			al := fvs[i].Alts[0]
			x.CallFunction(al.Fn, nil, al.Binds, g, fmt.Sprintf("thr%d", base+i))
			t.CEnd = t.C
			x.thr = nil
		}
	}
	// safety mode: every thread ran to completion
	allFin := u.True
	noneStuck := u.True
	for _, t := range thrs {
		fin := u.Cmp(OUle, t.CEnd, t.Hi)
		x.parFinished = append(x.parFinished, fin)
		allFin = u.And(allFin, fin)
		blocked := u.False
		for _, b := range t.BlockedAt {
			blocked = u.Or(blocked, u.And(b.Parked, u.Not(b.En())))
		}
		noneStuck = u.And(noneStuck, u.Or(fin, blocked))
	}
	x.raceObligation(thrs, x.pos(ins.Pos()))
	// deadlock: somebody is unfinished and every unfinished thread is parked at
	// a blocking operation that is disabled in the final memory
	x.Obligs = append(x.Obligs, Oblig{Kind: "deadlock", Cond: u.And(u.Not(allFin), noneStuck), NoFinish: true,
		Msg: "deadlock or lost wake-up: every unfinished thread is parked at a disabled blocking operation", Pos: x.pos(ins.Pos())})
}

func (x *Exec) intrinsic2(f *frame, ins ssa.Instruction, fn *ssa.Function, name string, args []Value, g *Term) (Value, bool) {
	return nil, false
}


// parStalled: thread 0 (the writer) runs an arbitrary prefix of its visible
// operations and is then stalled for ever; thread 1 (the reader) runs alone
// and must complete without ever waiting.
func (x *Exec) parStalled(f *frame, ins ssa.Instruction, w, r FuncV, g *Term) {
	u := x.U
	if x.thr != nil {
		x.fail("nested VxPar")
	}
	x.Cfg.Rounds = 1
	base := len(x.Threads)
	mk := func(id int) *Thread {
		return &Thread{ID: id, Regs: map[string]Value{}, Allocs: map[string]int{}, Inputs: map[string]thrInput{}, ObsIdx: map[string]int{}, Round: 1, Lo: u.Const(cntW, 0)}
	}
	tw, tr := mk(base), mk(base+1)
	x.Threads = append(x.Threads, tw, tr)
	nv := u.Var(fmt.Sprintf("sched.t%d.r1", base), 8)
	tw.Ns = []*Term{nv}
	tw.Hi = u.Zext(nv, cntW)
	tw.C = u.Const(cntW, 0)
	x.thr = tw
	if len(w.Alts) != 1 || len(r.Alts) != 1 {
		x.fail("VxParStalled needs two plain closures")
	}
	x.CallFunction(w.Alts[0].Fn, nil, w.Alts[0].Binds, g, fmt.Sprintf("thr%d", base))
	tw.CEnd = tw.C
	tr.Ns = []*Term{u.Const(8, 255)}
	tr.Hi = u.Const(cntW, 0xFFF0)
	tr.C = u.Const(cntW, 0)
	tr.NoWait = true
	x.thr = tr
	x.CallFunction(r.Alts[0].Fn, nil, r.Alts[0].Binds, g, fmt.Sprintf("thr%d", base+1))
	tr.CEnd = tr.C
	x.thr = nil
}
