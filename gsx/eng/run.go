package eng

import (
	"encoding/json"
	"fmt"
	"os"
	"path/filepath"
	"sort"
	"strings"
	"time"

	"golang.org/x/tools/go/packages"
	"golang.org/x/tools/go/ssa"
	"golang.org/x/tools/go/ssa/ssautil"
)

// RepoDir is the tree under check (/repo; GSX_REPO overrides it for development runs on a scratch copy).
var RepoDir = func() string {
	if d := os.Getenv("GSX_REPO"); d != "" {
		return d
	}
	return "/repo"
}()
const CachePath = "github.com/fufuok/cache"

type Loaded struct {
	Prog    *ssa.Program
	Xsync   *ssa.Package
	Cache   *ssa.Package
	Overlay map[string][]byte
	LoadDur time.Duration
}

// HarnessOverlay maps every harness source file under dir into the repository
// as virtual files (nothing is written to /repo).
func HarnessOverlay(harnessDir string) (map[string][]byte, map[string]string, error) {
	ov := map[string][]byte{}
	real := map[string]string{}
	for _, sub := range []struct{ dir, dest string }{{"xsync", filepath.Join(RepoDir, "internal/xsync")}, {"cache", RepoDir}} {
		files, _ := filepath.Glob(filepath.Join(harnessDir, sub.dir, "*.go"))
		sort.Strings(files)
		for _, f := range files {
			b, err := os.ReadFile(f)
			if err != nil {
				return nil, nil, err
			}
			v := filepath.Join(sub.dest, "zz_vx_"+filepath.Base(f))
			ov[v] = b
			real[v] = f
		}
	}
	return ov, real, nil
}

func Load(overlay map[string][]byte) (*Loaded, error) {
	t0 := time.Now()
	cfg := &packages.Config{
		Mode:    packages.LoadAllSyntax,
		Dir:     RepoDir,
		Env:     append(os.Environ(), "GOFLAGS=-mod=mod", "GOPROXY=off", "GOSUMDB=off", "GOTOOLCHAIN=local"),
		Overlay: overlay,
	}
	pkgs, err := packages.Load(cfg, CachePath, xsyncPath)
	if err != nil {
		return nil, err
	}
	var errs []string
	packages.Visit(pkgs, nil, func(p *packages.Package) {
		for _, e := range p.Errors {
			errs = append(errs, e.Error())
		}
	})
	if len(errs) > 0 {
		return nil, fmt.Errorf("package errors:\n%s", strings.Join(errs, "\n"))
	}
	prog, spkgs := ssautil.AllPackages(pkgs, ssa.InstantiateGenerics)
	prog.Build()
	L := &Loaded{Prog: prog, Overlay: overlay, LoadDur: time.Since(t0)}
	for _, p := range spkgs {
		if p == nil {
			continue
		}
		switch p.Pkg.Path() {
		case CachePath:
			L.Cache = p
		case xsyncPath:
			L.Xsync = p
		}
	}
	if L.Cache == nil || L.Xsync == nil {
		return nil, fmt.Errorf("packages not found")
	}
	return L, nil
}

type Instance struct {
	Name string
	Pkg  string // "xsync" or "cache"
	Func string
	Args []int64
	Cfg  Config
	// Tags: free-form labels (e.g. operation names) used for finding keys
	Tags map[string]string
}

type Model struct {
	Defined map[int]bool // terms that were part of the query the model answers
	appIdx  map[string]uint64
	StrText func(uint64) string
	Vals map[*Term]uint64
	memo map[*Term]uint64
	u    *Univ
}

func (m *Model) Eval(t *Term) uint64 {
	m.u.AppEval = m.appEval
	defer func() { m.u.AppEval = nil }()
	return m.u.Eval(t, m.Vals, m.memo)
}

// appEval: value of an uninterpreted application under the model. Applications
// that were part of the solver query have their solver value; others are
// completed consistently: same function and argument values as a defined
// application -> its value, otherwise the native replay's fallback function.
func (m *Model) appEval(t *Term, env map[*Term]uint64, memo map[*Term]uint64) uint64 {
	if m.Defined == nil || m.Defined[t.ID] {
		return env[t]
	}
	if m.appIdx == nil {
		m.appIdx = map[string]uint64{}
		for name, fd := range m.u.Funs {
			for _, a := range fd.Apps {
				if m.Defined[a.ID] {
					k := name
					for _, arg := range a.Args {
						k += fmt.Sprintf("|%d", m.u.Eval(arg, env, memo))
					}
					m.appIdx[k] = env[a]
				}
			}
		}
	}
	k := t.Name
	var av []uint64
	for _, arg := range t.Args {
		v := m.u.Eval(arg, env, memo)
		av = append(av, v)
		k += fmt.Sprintf("|%d", v)
	}
	if v, ok := m.appIdx[k]; ok {
		return v
	}
	switch {
	case t.Name == "hash_2":
		return av[0]*0x9E3779B97F4A7C15 ^ av[1]
	case t.Name == "hashstr" && m.StrText != nil:
		s := m.StrText(av[0])
		h := av[1] ^ 0xcbf29ce484222325
		for i := 0; i < len(s); i++ {
			h = (h ^ uint64(s[i])) * 0x100000001b3
		}
		return h
	}
	return 0
}

type Violation struct {
	Oblig Oblig
	Model *Model
}

type InstResult struct {
	Inst        Instance
	Status      string // pass | violation | bound | inconclusive | error
	Err         string
	NOblig      int
	NObligTriv  int // obligations folded away syntactically are not counted here; these are sat-checked ones
	Queries     int
	Unsat, Sat, Unknown int
	SolverTime  time.Duration
	ExecTime    time.Duration
	ReachTotal  int
	ReachSat    int
	ReachModel  *Model
	ReachLabel  string
	Violations  []Violation
	BoundHits   []Oblig
	Unknowns    []Oblig
	Terms       int
	NInstr      int
	Funcs       map[string]string
	AssumeTxt   []string
	X           *Exec
	FreeVars    int
	ModelBad    string
}

// Execute runs the harness symbolically (no solving).
func (L *Loaded) Execute(inst Instance) (x *Exec, err error) {
	var pkg *ssa.Package
	if inst.Pkg == "xsync" {
		pkg = L.Xsync
	} else {
		pkg = L.Cache
	}
	fn := pkg.Func(inst.Func)
	if fn == nil {
		return nil, fmt.Errorf("harness function %s.%s not found", inst.Pkg, inst.Func)
	}
	x = NewExec(L.Prog, inst.Cfg)
	if cj := os.Getenv("GSX_CONCRETE"); cj != "" {
		var job ReplayJob
		if b, err := os.ReadFile(cj); err == nil && json.Unmarshal(b, &job) == nil {
			x.Concrete, x.concPos = &job, map[string]int{}
		}
	}
	if cj := os.Getenv("GSX_PIN"); cj != "" {
		var job ReplayJob
		if b, err := os.ReadFile(cj); err == nil && json.Unmarshal(b, &job) == nil {
			x.Pin, x.concPos, x.pinned = &job, map[string]int{}, map[*Term]uint64{}
		}
	}
	if os.Getenv("GSX_TRACE") != "" {
		x.TraceRegs = map[string]RegTrace{}
	}
	if os.Getenv("GSX_NOFEAS") != "" {
		x.FeasOff = true
	}
	if os.Getenv("GSX_PROF") != "" {
		x.Prof, x.ProfCalls = map[string]int{}, map[string]int{}
		defer func() {
			type kv struct {
				k string
				v int
			}
			var l []kv
			for k, v := range x.Prof {
				l = append(l, kv{k, v})
			}
			sort.Slice(l, func(i, j int) bool { return l[i].v > l[j].v })
			for i, e := range l {
				if i > 25 {
					break
				}
				fmt.Fprintf(os.Stderr, "PROF %9d terms %5d calls  %s\n", e.v, x.ProfCalls[e.k], e.k)
			}
		}()
	}
	defer func() {
		if e := recover(); e != nil {
			if ee, ok := e.(*ExecError); ok {
				err = ee
				return
			}
			panic(e)
		}
	}()
	x.ensureInit(L.Xsync)
	x.ensureInit(L.Cache)
	if len(inst.Args) != len(fn.Params) {
		return nil, fmt.Errorf("harness %s takes %d params, instance gives %d", inst.Func, len(fn.Params), len(inst.Args))
	}
	args := make([]Value, len(fn.Params))
	for i, p := range fn.Params {
		w, ok := x.typeWidth(p.Type())
		if !ok {
			return nil, fmt.Errorf("harness param %s has unsupported type %v", p.Name(), p.Type())
		}
		args[i] = x.U.Const(w, uint64(inst.Args[i]))
	}
	defer x.CloseFeas()
	x.CallFunction(fn, args, nil, x.U.True, "H")
	return x, nil
}

type SolveOpts struct {
	Solver      string
	TimeoutMs   int
	LogFile     string
	PreferReach string
}

// Discharge decides every obligation of an executed harness.
func Discharge(x *Exec, inst Instance, so SolveOpts) *InstResult {
	r := &InstResult{Inst: inst, X: x, Funcs: x.FuncsEncoded, AssumeTxt: x.AssumeTxt, NInstr: x.NInstr}
	u := x.U
	if so.Solver == "" {
		so.Solver = "z3-new"
	}
	if so.TimeoutMs == 0 {
		so.TimeoutMs = 120000
	}
	s, err := NewSolver(u, so.Solver, so.TimeoutMs)
	if err != nil {
		r.Status, r.Err = "error", err.Error()
		return r
	}
	defer s.Close()
	if so.LogFile != "" {
		if lf, err := os.Create(so.LogFile); err == nil {
			s.Log = lf
			defer lf.Close()
		}
	}
	count := func(res Result) {
		switch res {
		case Sat:
			r.Sat++
		case Unsat:
			r.Unsat++
		default:
			r.Unknown++
		}
	}
	var base []*Term
	base = append(base, x.Assumes...)
	base = append(base, x.parFinished...)
	// unwinding assumptions: assertions are decided for executions inside the
	// loop bounds; the bounds themselves are decided separately (unwinding
	// assertions) and a violated bound makes the instance inconclusive
	within := append([]*Term(nil), base...)
	for _, o := range x.Obligs {
		if o.Kind == "unwind" {
			within = append(within, u.Not(o.Cond))
		}
	}
	with := func(t *Term) []*Term { return append(append([]*Term(nil), base...), t) }
	withIn := func(t *Term) []*Term { return append(append([]*Term(nil), within...), t) }
	baseNF := append([]*Term(nil), x.Assumes...)
	// vacuity: assumptions satisfiable
	res, note := s.Query(base)
	count(res)
	if res != Sat {
		r.Status = "inconclusive"
		r.Err = fmt.Sprintf("assumptions not satisfiable (%v %s): harness is vacuous", res, note)
		r.Queries, r.SolverTime = s.Queries, s.Time
		return r
	}
	r.ReachTotal = len(x.Reach)
	for _, w := range x.Reach {
		res, _ := s.Query(with(w.Cond))
		count(res)
		if res == Sat {
			r.ReachSat++
			if r.ReachModel == nil || w.Label == so.PreferReach {
				if m, err := getModel(x, s); err == nil {
					r.ReachModel = m
					r.ReachLabel = w.Label
					// self-check: the extracted model must satisfy what was asserted
					for i, b := range base {
						if m.Eval(b) != 1 {
							r.ModelBad = fmt.Sprintf("extracted model falsifies assumption #%d (%s)", i, b.Show(4))
							break
						}
					}
				}
			}
		}
	}
	var asserts, nofin []Oblig
	for _, o := range x.Obligs {
		if o.NoFinish {
			nofin = append(nofin, o)
		} else {
			asserts = append(asserts, o)
		}
	}
	r.NOblig = len(x.Obligs)
	for _, o := range nofin {
		res, _ := s.Query(append(append([]*Term(nil), baseNF...), o.Cond))
		count(res)
		switch res {
		case Sat:
			if m, err := getModel(x, s); err == nil {
				r.Violations = append(r.Violations, Violation{o, m})
			} else {
				r.Unknowns = append(r.Unknowns, o)
			}
		case Unknown:
			r.Unknowns = append(r.Unknowns, o)
		}
	}
	// obligations are discharged in groups (one query per group: the
	// disjunction of the group's violation conditions must be unsat); a group
	// that is not unsat is split into its members
	const groupSize = 48
	var decide func(group []Oblig)
	decide = func(group []Oblig) {
		if len(group) == 0 || len(r.Violations) >= 3 {
			return
		}
		all := u.False
		onlyUnwind := true
		for _, o := range group {
			all = u.Or(all, o.Cond)
			if o.Kind != "unwind" && o.Kind != "blocked" && o.Kind != "deadlock" {
				onlyUnwind = false
			}
		}
		q := withIn(all)
		if onlyUnwind {
			q = with(all)
		}
		res, _ := s.Query(q)
		count(res)
		if res == Unsat {
			return
		}
		if len(group) == 1 {
			o := group[0]
			switch res {
			case Sat:
				if o.Kind == "unwind" {
					r.BoundHits = append(r.BoundHits, o)
				} else if m, err := getModel(x, s); err != nil {
					r.Unknowns = append(r.Unknowns, o)
				} else {
					r.Violations = append(r.Violations, Violation{o, m})
				}
			default:
				r.Unknowns = append(r.Unknowns, o)
			}
			return
		}
		if res == Sat {
			// the model tells which members fail: decide those first
			if m, err := getModel(x, s); err == nil {
				var hit, rest []Oblig
				for _, o := range group {
					if m.Eval(o.Cond) == 1 {
						hit = append(hit, o)
					} else {
						rest = append(rest, o)
					}
				}
				for _, o := range hit {
					decide([]Oblig{o})
				}
				decide(rest)
				return
			}
		}
		mid := len(group) / 2
		decide(group[:mid])
		decide(group[mid:])
	}
	var unw, rest []Oblig
	for _, o := range asserts {
		if o.Kind == "blocked" || o.Kind == "deadlock" {
			// a reader that must wait never gets past this point: decided without the unwinding assumptions
			decide([]Oblig{o})
			continue
		}
		if o.Kind == "unwind" {
			unw = append(unw, o)
		} else {
			rest = append(rest, o)
		}
	}
	decide(unw)
	asserts = rest
	if len(asserts) <= 2*groupSize {
		decide(asserts)
	} else {
		for i := 0; i < len(asserts); i += groupSize {
			j := i + groupSize
			if j > len(asserts) {
				j = len(asserts)
			}
			decide(asserts[i:j])
		}
	}
	r.Queries, r.SolverTime = s.Queries, s.Time
	r.Terms = u.NumTerms()
	for _, t := range u.all {
		if t.Op == OVar {
			r.FreeVars++
		}
	}
	switch {
	case len(r.Violations) > 0:
		r.Status = "violation"
	case len(r.Unknowns) > 0:
		r.Status = "inconclusive"
		r.Err = fmt.Sprintf("%d obligations undecided (solver unknown/timeout)", len(r.Unknowns))
	case len(r.BoundHits) > 0:
		r.Status = "bound"
		r.Err = fmt.Sprintf("unwinding assertion failed: %s", r.BoundHits[0].Msg)
	case r.ReachTotal > 0 && r.ReachSat == 0:
		r.Status = "inconclusive"
		r.Err = "no reachability witness is satisfiable: harness is vacuous"
	default:
		r.Status = "pass"
	}
	return r
}

func getModel(x *Exec, s *Solver) (*Model, error) {
	var ts []*Term
	for _, t := range x.U.all {
		if t.Op == OVar || t.Op == OApp {
			ts = append(ts, t)
		}
	}
	vals, err := s.Values(ts)
	if err != nil {
		return nil, err
	}
	def := map[int]bool{}
	for id := range s.defined {
		def[id] = true
	}
	return &Model{Vals: vals, memo: map[*Term]uint64{}, u: x.U, Defined: def, StrText: x.strText}, nil
}
