//go:build go1.21

package xsync

// MapOf twin of h_c16.go (derived textually).

func VxH_MapOf_stalled(wop, rop, tableLen, chain, minLen, mode, slots int) {
	m, c := vxArbMapOf[int, int](tableLen, chain, minLen, slots, slots, VxIntHasher, vxIntKey, vxIntVal)
	kW, kR := VxInt("kW"), VxInt("kR")
	if mode >= 0 {
		VxAssume(c.count() <= mode)
	}
	nv := VxInt("nv")
	del := VxBool("del")
	for i := 0; i < vxMaxEnt-4; i++ {
		VxAssume(!c.ok[i] || c.v[i] != nv)
	}
	var rv int
	var rok bool
	var size int
	before := *c
	after := *c
	vxRefDoOf(&after, wop, kW, nv, del)
	bv, bok := before.get(kR)
	av, aok := after.get(kR)
	if rop == mopLoadOrStore {
		// only the hit path is claimed to be wait-free: key present before and after
		VxAssume(bok && aok)
	}
	VxReach("pre-state built")
	VxParStalled(
		func() {
			switch wop {
			case mopCompute:
				m.Compute(kW, func(old int, loaded bool) (int, bool) {
					VxYield() // the writer may be parked here, holding the bucket lock
					return nv, del
				})
			case mopLoadOrCompute:
				m.LoadOrCompute(kW, func() int {
					VxYield()
					return nv
				})
			default:
				vxMapOfDo(m, wop, kW, nv, del)
			}
		},
		func() {
			switch rop {
			case mopLoad:
				rv, rok = m.Load(kR)
			case mopLoadOrStore: // hit path only (assumed below)
				rv, rok = m.LoadOrStore(kR, 12345)
			case mopSize:
				size = m.Size()
			}
		},
	)
	VxReach("reader finished")
	VxObserve("r.ok", rok)
	switch rop {
	case mopLoad:
		VxAssert((rok == bok && rv == bv) || (rok == aok && rv == av), "stalled writer: Load returns the value before or after the writer's operation")
		if kR != kW && wop != mopClear {
			VxAssert(rok == bok && rv == bv, "stalled writer: keys the writer does not touch read their pre-state value")
		}
	case mopLoadOrStore:
		// only the hit path is claimed to be wait-free: key present before and after
		if bok && aok {
			VxAssert(rok && (rv == bv || rv == av), "stalled writer: LoadOrStore hit returns an existing value without waiting")
		}
	case mopSize:
		VxAssert(size == before.count() || size == after.count(), "stalled writer: Size reports the count before or after the writer's operation")
	}
}
