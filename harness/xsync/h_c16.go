//go:build go1.21

package xsync

// C16: a writer is stalled after an arbitrary prefix of its visible
// operations (including inside its user function, which yields); the reader
// then runs alone and must complete without waiting, returning the value
// before or after the writer's operation.

func VxH_Map_stalled(wop, rop, tableLen, chain, minLen, mode int) {
	m, c := vxArbMap(tableLen, chain, minLen)
	kW, kR := VxStr("kW"), VxStr("kR")
	if mode >= 0 {
		VxAssume(c.count() <= mode)
	}
	nv := VxInt("nv")
	del := VxBool("del")
	for i := 0; i < vxMaxEnt-4; i++ {
		VxAssume(!c.ok[i] || c.v[i] != interface{}(nv))
	}
	var rv interface{}
	var rok bool
	var size int
	before := *c
	after := *c
	vxRefDo(&after, wop, kW, nv, del)
	bv, bok := before.get(kR)
	av, aok := after.get(kR)
	if rop == mopLoadOrStore {
		// only the hit path is claimed to be wait-free: key present before and after
		VxAssume(bok && aok)
	}
	VxReach("pre-state built")
	VxParStalled(
		func() {
			switch wop {
			case mopCompute:
				m.Compute(kW, func(old interface{}, loaded bool) (interface{}, bool) {
					VxYield() // the writer may be parked here, holding the bucket lock
					return nv, del
				})
			case mopLoadOrCompute:
				m.LoadOrCompute(kW, func() interface{} {
					VxYield()
					return nv
				})
			default:
				vxMapDo(m, wop, kW, nv, del)
			}
		},
		func() {
			switch rop {
			case mopLoad:
				rv, rok = m.Load(kR)
			case mopLoadOrStore: // hit path only (assumed below)
				rv, rok = m.LoadOrStore(kR, 12345)
			case mopSize:
				size = m.Size()
			}
		},
	)
	VxReach("reader finished")
	VxObserve("r.ok", rok)
	switch rop {
	case mopLoad:
		VxAssert((rok == bok && rv == bv) || (rok == aok && rv == av), "stalled writer: Load returns the value before or after the writer's operation")
		if kR != kW && wop != mopClear {
			VxAssert(rok == bok && rv == bv, "stalled writer: keys the writer does not touch read their pre-state value")
		}
	case mopLoadOrStore:
		// only the hit path is claimed to be wait-free: key present before and after
		if bok && aok {
			VxAssert(rok && (rv == bv || rv == av), "stalled writer: LoadOrStore hit returns an existing value without waiting")
		}
	case mopSize:
		VxAssert(size == before.count() || size == after.count(), "stalled writer: Size reports the count before or after the writer's operation")
	}
}
