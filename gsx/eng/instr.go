package eng

import (
	"fmt"
	"os"
	"go/token"
	"go/types"

	"golang.org/x/tools/go/ssa"
)

func (x *Exec) step(f *frame, ins ssa.Instruction, g *Term) {
	u := x.U
	switch in := ins.(type) {
	case *ssa.DebugRef:
	case *ssa.Alloc:
		et := in.Type().(*types.Pointer).Elem()
		addr := x.allocAt(f, in, et, in.Comment)
		x.setReg(f, in, PtrV{Alts: []PAlt{{u.True, addr}}}, g)
	case *ssa.BinOp:
		x.setReg(f, in, x.binop(f, in, g), g)
	case *ssa.UnOp:
		x.setReg(f, in, x.unop(f, in, g), g)
	case *ssa.Call:
		v := x.call(f, in, in.Common(), g)
		if v != nil {
			x.setReg(f, in, v, g)
		}
	case *ssa.ChangeInterface:
		x.setReg(f, in, x.operand(f, in.X), g)
	case *ssa.ChangeType:
		x.setReg(f, in, x.operand(f, in.X), g)
	case *ssa.Convert:
		x.setReg(f, in, x.convert(f, in), g)
	case *ssa.MakeInterface:
		v := x.operand(f, in.X)
		x.setReg(f, in, x.mkIface(in.X.Type(), v), g)
	case *ssa.MakeClosure:
		fn := in.Fn.(*ssa.Function)
		binds := make([]Value, len(in.Bindings))
		for i, b := range in.Bindings {
			binds[i] = x.operand(f, b)
		}
		x.setReg(f, in, FuncV{Alts: []FAlt{{G: u.True, Fn: fn, Binds: binds}}}, g)
	case *ssa.MakeSlice:
		x.setReg(f, in, x.makeSlice(f, in, g), g)
	case *ssa.MakeMap:
		mt := in.Type().Underlying().(*types.Map)
		x.setReg(f, in, MapV{Ref: x.mapObjAt(f, in, mt)}, g)
	case *ssa.MakeChan:
		x.opaqueN++
		x.setReg(f, in, OpaqueV{What: "chan", ID: x.opaqueN}, g)
	case *ssa.Extract:
		t := x.operand(f, in.Tuple).(AggV)
		x.setReg(f, in, t.Elems[in.Index], g)
	case *ssa.Field:
		a := x.operand(f, in.X).(AggV)
		x.setReg(f, in, a.Elems[in.Field], g)
	case *ssa.FieldAddr:
		p := asPtr(x.operand(f, in.X))
		st := in.X.Type().Underlying().(*types.Pointer).Elem().Underlying().(*types.Struct)
		x.nilCheck(p, g, "field address", in.Pos())
		if nt, ok := in.X.Type().Underlying().(*types.Pointer).Elem().(*types.Named); ok && nt.Obj().Name() == "iface" && nt.Obj().Pkg() != nil && nt.Obj().Pkg().Path() == xsyncPath {
			// interface-header view (see loadIfaceView)
			view := ifaceViewTyp
			if in.Field == 1 {
				view = ifaceViewWord
			}
			r := PtrV{}
			for _, al := range p.Alts {
				r.Alts = append(r.Alts, PAlt{al.G, (al.Addr & ifaceViewMask) | view})
			}
			x.setReg(f, in, r, g)
			break
		}
		x.setReg(f, in, x.ptrOffset(p, x.fieldOffset(st, in.Field)), g)
	case *ssa.Index:
		x.setReg(f, in, x.indexValue(f, in, g), g)
	case *ssa.IndexAddr:
		x.setReg(f, in, x.indexAddr(f, in, g), g)
	case *ssa.Lookup:
		x.setReg(f, in, x.lookup(f, in, g), g)
	case *ssa.MapUpdate:
		x.mapUpdate(f, in, g)
	case *ssa.Slice:
		x.setReg(f, in, x.sliceOp(f, in, g), g)
	case *ssa.Store:
		p := asPtr(x.operand(f, in.Addr))
		v := x.operand(f, in.Val)
		x.Store(p, in.Val.Type(), v, g, in.Pos())
	case *ssa.TypeAssert:
		x.setReg(f, in, x.typeAssert(f, in, g), g)
	case *ssa.Go:
		x.spawn(f, in, g)
	case *ssa.Defer:
		d := deferred{g: g, call: in.Common(), ins: in}
		for _, a := range in.Call.Args {
			d.args = append(d.args, x.operand(f, a))
		}
		if !in.Call.IsInvoke() {
			if _, ok := in.Call.Value.(*ssa.Builtin); !ok {
				d.fnv = x.operand(f, in.Call.Value)
			}
		} else {
			d.fnv = x.operand(f, in.Call.Value)
		}
		f.defers = append(f.defers, d)
	case *ssa.RunDefers:
		for i := len(f.defers) - 1; i >= 0; i-- {
			d := f.defers[i]
			x.callCommon(f, d.ins, d.call, d.fnv, d.args, u.And(g, d.g))
		}
		f.defers = nil
	case *ssa.Panic:
		msg := "panic"
		if mi, ok := in.X.(*ssa.MakeInterface); ok {
			if c, ok := mi.X.(*ssa.Const); ok && c.Value != nil {
				msg = "panic: " + c.Value.ExactString()
			}
		}
		x.oblige("panic", g, msg, in.Pos())
	case *ssa.Return:
		vals := make([]Value, len(in.Results))
		for i, r := range in.Results {
			vals[i] = x.operand(f, r)
		}
		f.rets = append(f.rets, retEdge{g, vals})
	case *ssa.Jump:
		x.addEdge(f, in.Block(), in.Block().Succs[0], g)
	case *ssa.If:
		c := x.operand(f, in.Cond).(*Term)
		b := in.Block()
		x.addEdge(f, b, b.Succs[0], u.And(g, c))
		x.addEdge(f, b, b.Succs[1], u.And(g, u.Not(c)))
	case *ssa.Select:
		x.setReg(f, in, x.selectOp(f, in, g), g)
	case *ssa.Send:
		x.fail("channel send not supported at %s", x.pos(in.Pos()))
	case *ssa.Range:
		x.setReg(f, in, x.rangeOp(f, in, g), g)
	case *ssa.Next:
		x.setReg(f, in, x.nextOp(f, in, g), g)
	default:
		x.fail("unsupported instruction %T (%v) at %s", ins, ins, x.pos(ins.Pos()))
	}
}

func (x *Exec) allocAt(f *frame, in ssa.Instruction, et types.Type, name string) int {
	if x.thr != nil {
		k := f.key(x, in)
		if a, ok := x.thr.Allocs[k]; ok {
			return a
		}
		a := x.allocCells(et, name)
		x.thr.Allocs[k] = a
		return a
	}
	return x.allocCells(et, name)
}

func (x *Exec) binop(f *frame, in *ssa.BinOp, g *Term) Value {
	u := x.U
	a, b := x.operand(f, in.X), x.operand(f, in.Y)
	t := in.X.Type()
	switch in.Op {
	case token.EQL:
		return x.valueEq(t, a, b)
	case token.NEQ:
		return u.Not(x.valueEq(t, a, b))
	}
	if isFloat(t) {
		return x.floatBin(in.Op, a.(FloatV), b.(FloatV))
	}
	at, ok1 := a.(*Term)
	bt, ok2 := b.(*Term)
	if !ok1 || !ok2 {
		x.fail("binop %v on %T,%T at %s", in.Op, a, b, x.pos(in.Pos()))
	}
	if isString(t) && in.Op == token.ADD && at.IsConst() && bt.IsConst() {
		sa, oka := x.strByID[int(at.Val)]
		sb, okb := x.strByID[int(bt.Val)]
		if oka && okb {
			return u.Const(StrW, uint64(x.StrID(sa+sb)))
		}
	}
	if isString(t) {
		x.fail("string operator %v not supported at %s", in.Op, x.pos(in.Pos()))
	}
	signed := isSigned(t)
	if at.W == 0 {
		switch in.Op {
		case token.AND, token.LAND:
			return u.And(at, bt)
		case token.OR, token.LOR:
			return u.Or(at, bt)
		case token.XOR:
			return u.Not(u.Eq(at, bt))
		}
		x.fail("bool binop %v", in.Op)
	}
	switch in.Op {
	case token.ADD:
		return u.BV(OAdd, at, bt)
	case token.SUB:
		return u.BV(OSub, at, bt)
	case token.MUL:
		return u.BV(OMul, at, bt)
	case token.QUO:
		x.oblige("panic", u.And(g, u.Eq(bt, u.Const(bt.W, 0))), "integer divide by zero", in.Pos())
		if signed {
			return u.BV(OSDiv, at, bt)
		}
		return u.BV(OUDiv, at, bt)
	case token.REM:
		x.oblige("panic", u.And(g, u.Eq(bt, u.Const(bt.W, 0))), "integer divide by zero", in.Pos())
		if signed {
			return u.BV(OSRem, at, bt)
		}
		return u.BV(OURem, at, bt)
	case token.AND:
		return u.BV(OBAnd, at, bt)
	case token.OR:
		return u.BV(OBOr, at, bt)
	case token.XOR:
		return u.BV(OBXor, at, bt)
	case token.AND_NOT:
		return u.BV(OBAnd, at, u.BNot(bt))
	case token.SHL, token.SHR:
		// shift count may have a different width; Go: count >= width gives 0 / sign fill
		cnt := bt
		if cnt.W < at.W {
			cnt = u.Zext(cnt, at.W)
		} else if cnt.W > at.W {
			// saturate
			big := u.Cmp(OUle, u.Const(cnt.W, uint64(at.W)), cnt)
			cnt = u.Ite(big, u.Const(at.W, uint64(at.W)), u.Extract(cnt, at.W-1, 0))
		}
		if in.Op == token.SHL {
			return u.BV(OShl, at, cnt)
		}
		if signed {
			return u.BV(OAShr, at, cnt)
		}
		return u.BV(OLShr, at, cnt)
	case token.LSS:
		if signed {
			return u.Cmp(OSlt, at, bt)
		}
		return u.Cmp(OUlt, at, bt)
	case token.LEQ:
		if signed {
			return u.Cmp(OSle, at, bt)
		}
		return u.Cmp(OUle, at, bt)
	case token.GTR:
		if signed {
			return u.Cmp(OSlt, bt, at)
		}
		return u.Cmp(OUlt, bt, at)
	case token.GEQ:
		if signed {
			return u.Cmp(OSle, bt, at)
		}
		return u.Cmp(OUle, bt, at)
	}
	x.fail("unsupported binop %v at %s", in.Op, x.pos(in.Pos()))
	return nil
}

func (x *Exec) unop(f *frame, in *ssa.UnOp, g *Term) Value {
	u := x.U
	a := x.operand(f, in.X)
	switch in.Op {
	case token.MUL:
		p := asPtr(a)
		return x.Load(f, in, p, in.Type(), g, in.Pos())
	case token.NOT:
		return u.Not(a.(*Term))
	case token.SUB:
		if fv, ok := a.(FloatV); ok {
			r := FloatV{}
			for _, al := range fv.Alts {
				r.Alts = append(r.Alts, FlAlt{al.G, -al.F})
			}
			return r
		}
		return u.Neg(a.(*Term))
	case token.XOR:
		return u.BNot(a.(*Term))
	case token.ARROW:
		x.fail("channel receive not supported at %s", x.pos(in.Pos()))
	}
	x.fail("unsupported unop %v", in.Op)
	return nil
}

func (x *Exec) convert(f *frame, in *ssa.Convert) Value {
	u := x.U
	v := x.operand(f, in.X)
	from, to := in.X.Type(), in.Type()
	fu, tu := from.Underlying(), to.Underlying()
	// pointer-ish conversions: identity on the address
	if isPointerLike(to) {
		switch vv := v.(type) {
		case PtrV:
			return vv
		case *Term:
			if vv.IsConst() && vv.Val == 0 {
				return PtrV{}
			}
			x.fail("conversion of integer to pointer at %s", x.pos(in.Pos()))
		}
	}
	if isPointerLike(from) {
		// to uintptr: keep the pointer value
		return v
	}
	fb, ok1 := fu.(*types.Basic)
	tb, ok2 := tu.(*types.Basic)
	if ok1 && ok2 {
		switch {
		case fb.Info()&types.IsFloat != 0 && tb.Info()&types.IsFloat != 0:
			return v
		case fb.Info()&types.IsFloat != 0 && tb.Info()&types.IsInteger != 0:
			w, s, _ := basicWidth(tb)
			return x.floatToInt(v.(FloatV), w, s)
		case fb.Info()&types.IsInteger != 0 && tb.Info()&types.IsFloat != 0:
			if _, isP := v.(PtrV); isP {
				x.fail("pointer to float")
			}
			return x.intToFloat(v.(*Term), isSigned(from))
		case fb.Info()&types.IsInteger != 0 && tb.Info()&types.IsInteger != 0:
			if p, isP := v.(PtrV); isP {
				return p // uintptr -> uintptr/uint64 keeps pointer view
			}
			tv := v.(*Term)
			w, _, _ := basicWidth(tb)
			if w == tv.W {
				return tv
			}
			if w < tv.W {
				return u.Extract(tv, w-1, 0)
			}
			if isSigned(from) {
				return u.Sext(tv, w)
			}
			return u.Zext(tv, w)
		case fb.Info()&types.IsString != 0 && tb.Info()&types.IsString != 0:
			return v
		}
	}
	x.fail("unsupported conversion %v -> %v at %s", from, to, x.pos(in.Pos()))
	return nil
}

func (x *Exec) makeSlice(f *frame, in *ssa.MakeSlice, g *Term) Value {
	et := in.Type().Underlying().(*types.Slice).Elem()
	ln := x.operand(f, in.Len).(*Term)
	cp := x.operand(f, in.Cap).(*Term)
	if ln.W != 64 {
		ln = x.U.Sext(ln, 64)
	}
	if cp.W != 64 {
		cp = x.U.Sext(cp, 64)
	}
	maxOf := func(t *Term) int {
		cs := PossibleConsts(t)
		if cs == nil {
			// bounded fallback with an unwinding-style obligation
			if os.Getenv("GSX_DEBUG") != "" {
				fmt.Fprintf(os.Stderr, "make fallback at %s: %s\n", x.pos(in.Pos()), t.Show(5))
			}
			mx := 8
			x.oblige("unwind", x.U.And(g, x.U.Cmp(OUlt, x.U.Const(64, uint64(mx)), t)), fmt.Sprintf("make([]T, n) with n > %d", mx), in.Pos())
			return mx
		}
		m := 0
		for _, c := range cs {
			if int64(c) > int64(m) {
				m = int(c)
			}
		}
		return m
	}
	ml, mc := maxOf(ln), maxOf(cp)
	if mc < ml {
		mc = ml
	}
	if mc > 4096 {
		x.fail("make([]T, %d): too large at %s", mc, x.pos(in.Pos()))
	}
	var base int
	if x.thr != nil {
		k := f.key(x, in)
		if a, ok := x.thr.Allocs[k]; ok {
			base = a
		} else {
			base = x.allocArray(et, mc, "makeslice")
			x.thr.Allocs[k] = base
		}
	} else {
		base = x.allocArray(et, mc, "makeslice")
	}
	return SliceV{Base: PtrV{Alts: []PAlt{{x.U.True, base}}}, Len: ln, Cap: cp, Stride: x.cellsOf(et), MaxLen: ml, MaxCap: mc}
}

// idxCandidates expands a (possibly symbolic) index into guarded concrete candidates in [0,n).
func (x *Exec) idxCandidates(idx *Term, n int) []PAlt {
	u := x.U
	if idx.IsConst() {
		i := int(sext64(idx.Val, idx.W))
		if i >= 0 && i < n {
			return []PAlt{{u.True, i}}
		}
		return nil
	}
	var out []PAlt
	if cs := PossibleConsts(idx); cs != nil {
		for _, c := range cs {
			i := int(sext64(c, idx.W))
			if i >= 0 && i < n {
				out = append(out, PAlt{u.Eq(idx, u.Const(idx.W, c)), i})
			}
		}
		return out
	}
	for i := 0; i < n; i++ {
		out = append(out, PAlt{u.Eq(idx, u.Const(idx.W, uint64(i))), i})
	}
	return out
}

func (x *Exec) boundsCheck(idx *Term, ln *Term, g *Term, pos token.Pos) {
	u := x.U
	if idx.W != ln.W {
		if idx.W < ln.W {
			idx = u.Sext(idx, ln.W)
		} else {
			ln = u.Sext(ln, idx.W)
		}
	}
	bad := u.Not(u.Cmp(OUlt, idx, ln))
	x.oblige("bounds", u.And(g, bad), "index out of range", pos)
}

func (x *Exec) indexAddr(f *frame, in *ssa.IndexAddr, g *Term) Value {
	u := x.U
	idx := x.operand(f, in.Index).(*Term)
	switch xt := in.X.Type().Underlying().(type) {
	case *types.Pointer: // *array
		at := xt.Elem().Underlying().(*types.Array)
		p := asPtr(x.operand(f, in.X))
		x.nilCheck(p, g, "index address", in.Pos())
		n := int(at.Len())
		stride := x.cellsOf(at.Elem())
		x.boundsCheck(idx, u.Const(idx.W, uint64(n)), g, in.Pos())
		r := PtrV{}
		for _, c := range x.idxCandidates(idx, n) {
			for _, al := range p.Alts {
				gg := u.And(c.G, al.G)
				if !gg.IsFalse() {
					r.Alts = append(r.Alts, PAlt{gg, al.Addr + c.Addr*stride})
				}
			}
		}
		return x.normPtr(r)
	case *types.Slice:
		s := x.operand(f, in.X).(SliceV)
		x.boundsCheck(idx, s.Len, g, in.Pos())
		r := PtrV{}
		for _, c := range x.idxCandidates(idx, s.MaxLen) {
			for _, al := range s.Base.Alts {
				// stay inside the backing object of this alternative
				if o, ok := x.ObjOf(al.Addr); ok && al.Addr+(c.Addr+1)*s.Stride > o.Base+o.N {
					continue
				}
				gg := u.And(c.G, al.G)
				if !gg.IsFalse() {
					r.Alts = append(r.Alts, PAlt{gg, al.Addr + c.Addr*s.Stride})
				}
			}
		}
		return x.normPtr(r)
	}
	x.fail("indexAddr on %v", in.X.Type())
	return nil
}

// normPtr merges duplicate addresses.
func (x *Exec) normPtr(p PtrV) PtrV {
	if len(p.Alts) < 2 {
		return p
	}
	m := map[int]*Term{}
	var order []int
	for _, a := range p.Alts {
		if old, ok := m[a.Addr]; ok {
			m[a.Addr] = x.U.Or(old, a.G)
		} else {
			m[a.Addr] = a.G
			order = append(order, a.Addr)
		}
	}
	r := PtrV{}
	for _, ad := range order {
		r.Alts = append(r.Alts, PAlt{m[ad], ad})
	}
	return r
}

func (x *Exec) indexValue(f *frame, in *ssa.Index, g *Term) Value {
	u := x.U
	idx := x.operand(f, in.Index).(*Term)
	switch in.X.Type().Underlying().(type) {
	case *types.Array:
		a := x.operand(f, in.X).(AggV)
		n := len(a.Elems)
		x.boundsCheck(idx, u.Const(idx.W, uint64(n)), g, in.Pos())
		cands := x.idxCandidates(idx, n)
		var r Value
		for i := len(cands) - 1; i >= 0; i-- {
			if r == nil {
				r = a.Elems[cands[i].Addr]
			} else {
				r = x.Merge(cands[i].G, a.Elems[cands[i].Addr], r)
			}
		}
		if r == nil {
			r = x.zero(in.Type())
		}
		return r
	}
	x.fail("index on %v not supported at %s", in.X.Type(), x.pos(in.Pos()))
	return nil
}

func (x *Exec) sliceOp(f *frame, in *ssa.Slice, g *Term) Value {
	u := x.U
	getIdx := func(v ssa.Value, def *Term) *Term {
		if v == nil {
			return def
		}
		t := x.operand(f, v).(*Term)
		if t.W != 64 {
			t = u.Sext(t, 64)
		}
		return t
	}
	switch xt := in.X.Type().Underlying().(type) {
	case *types.Slice:
		s := x.operand(f, in.X).(SliceV)
		lo := getIdx(in.Low, u.Const(64, 0))
		hi := getIdx(in.High, s.Len)
		if !lo.IsConst() {
			x.fail("slice with symbolic low bound at %s", x.pos(in.Pos()))
		}
		l := int(lo.Val)
		r := SliceV{Base: x.ptrOffset(s.Base, l*s.Stride), Len: u.BV(OSub, hi, lo), Cap: u.BV(OSub, s.Cap, lo),
			Stride: s.Stride, MaxCap: s.MaxCap - l}
		if in.Max != nil {
			r.Cap = u.BV(OSub, getIdx(in.Max, nil), lo)
		}
		if hi.IsConst() {
			r.MaxLen = int(hi.Val) - l
		} else if in.High == nil {
			r.MaxLen = s.MaxLen - l
		} else {
			r.MaxLen = s.MaxCap - l
		}
		if r.MaxLen < 0 {
			r.MaxLen = 0
		}
		// hi <= cap
		x.oblige("bounds", u.And(g, u.Cmp(OUlt, s.Cap, hi)), "slice bounds out of range", in.Pos())
		return r
	case *types.Pointer:
		at := xt.Elem().Underlying().(*types.Array)
		p := asPtr(x.operand(f, in.X))
		n := int(at.Len())
		lo := getIdx(in.Low, u.Const(64, 0))
		hi := getIdx(in.High, u.Const(64, uint64(n)))
		if !lo.IsConst() || !hi.IsConst() {
			x.fail("array slicing with symbolic bounds at %s", x.pos(in.Pos()))
		}
		st := x.cellsOf(at.Elem())
		return SliceV{Base: x.ptrOffset(p, int(lo.Val)*st), Len: u.Const(64, hi.Val-lo.Val), Cap: u.Const(64, uint64(n)-lo.Val),
			Stride: st, MaxLen: int(hi.Val - lo.Val), MaxCap: n - int(lo.Val)}
	}
	x.fail("slice of %v not supported at %s", in.X.Type(), x.pos(in.Pos()))
	return nil
}

func (x *Exec) typeAssert(f *frame, in *ssa.TypeAssert, g *Term) Value {
	u := x.U
	iv := x.operand(f, in.X).(IfaceV)
	var ok *Term
	var val Value
	if types.IsInterface(in.AssertedType) {
		it := in.AssertedType.Underlying().(*types.Interface)
		ok = u.False
		for id := range iv.Pay {
			if types.Implements(x.TR.Type(id), it) {
				ok = u.Or(ok, u.Eq(iv.Tag, u.Const(16, uint64(id))))
			}
		}
		val = x.restrictIface(iv, ok)
	} else {
		id := x.TR.ID(in.AssertedType)
		ok = u.Eq(iv.Tag, u.Const(16, uint64(id)))
		if pv, has := iv.Pay[id]; has {
			val = pv
		} else {
			val = x.zero(in.AssertedType)
			ok = u.False
		}
	}
	if in.CommaOk {
		return AggV{Elems: []Value{val, ok}}
	}
	x.oblige("typeassert", u.And(g, u.Not(ok)), fmt.Sprintf("interface conversion: not %v", in.AssertedType), in.Pos())
	return val
}

// ---------- builtin maps as association lists ----------

func (x *Exec) mapObjAt(f *frame, in ssa.Instruction, mt *types.Map) *MapObj {
	if x.thr != nil {
		// one object per allocation site instance across the rounds of a thread
		k := f.key(x, in)
		if x.thr.Maps == nil {
			x.thr.Maps = map[string]*MapObj{}
		}
		if m, ok := x.thr.Maps[k]; ok {
			return m
		}
		m := &MapObj{KT: mt.Key(), VT: mt.Elem()}
		x.thr.Maps[k] = m
		return m
	}
	return &MapObj{KT: mt.Key(), VT: mt.Elem()}
}

func (x *Exec) lookup(f *frame, in *ssa.Lookup, g *Term) Value {
	u := x.U
	mt, isMap := in.X.Type().Underlying().(*types.Map)
	if !isMap {
		x.fail("string indexing not supported at %s", x.pos(in.Pos()))
	}
	m := x.operand(f, in.X).(MapV)
	k := x.operand(f, in.Index)
	var val Value = x.zero(mt.Elem())
	found := u.False
	if m.Ref != nil {
		for _, e := range m.Ref.Entries {
			hit := u.And(e.G, x.valueEq(mt.Key(), e.K, k))
			val = x.Merge(hit, e.V, val)
			found = u.Or(found, hit)
		}
	}
	if in.CommaOk {
		return AggV{Elems: []Value{val, found}}
	}
	return val
}

func (x *Exec) mapUpdate(f *frame, in *ssa.MapUpdate, g *Term) {
	u := x.U
	m := x.operand(f, in.Map).(MapV)
	if m.Ref == nil {
		x.oblige("panic", g, "assignment to entry in nil map", in.Pos())
		return
	}
	k := x.operand(f, in.Key)
	v := x.operand(f, in.Value)
	g = x.act(g)
	exists := u.False
	for i := range m.Ref.Entries {
		e := &m.Ref.Entries[i]
		hit := u.And(g, u.And(e.G, x.valueEq(m.Ref.KT, e.K, k)))
		e.V = x.Merge(hit, v, e.V)
		exists = u.Or(exists, hit)
	}
	m.Ref.Entries = append(m.Ref.Entries, MapEntry{G: u.And(g, u.Not(exists)), K: k, V: v})
}

func (x *Exec) mapLen(m MapV) *Term {
	u := x.U
	n := u.Const(64, 0)
	if m.Ref == nil {
		return n
	}
	for _, e := range m.Ref.Entries {
		n = u.BV(OAdd, n, u.Ite(e.G, u.Const(64, 1), u.Const(64, 0)))
	}
	return n
}

func (x *Exec) mapDelete(m MapV, k Value, g *Term) {
	if m.Ref == nil {
		return
	}
	u := x.U
	g = x.act(g)
	for i := range m.Ref.Entries {
		e := &m.Ref.Entries[i]
		hit := u.And(g, x.valueEq(m.Ref.KT, e.K, k))
		e.G = u.And(e.G, u.Not(hit))
	}
}

type mapIter struct {
	m   MapV
	pos int
}

func (x *Exec) rangeOp(f *frame, in *ssa.Range, g *Term) Value {
	if _, ok := in.X.Type().Underlying().(*types.Map); !ok {
		x.fail("range over string not supported at %s", x.pos(in.Pos()))
	}
	m := x.operand(f, in.X).(MapV)
	// snapshot entries
	it := &mapIter{m: m}
	return OpaqueV{What: "mapiter", ID: x.regIter(it)}
}

var iterTab = map[*Exec][]*mapIter{}

func (x *Exec) regIter(it *mapIter) int {
	iterTab[x] = append(iterTab[x], it)
	return len(iterTab[x]) - 1
}

// nextOp yields entry slots in order; absent slots are skipped by the caller's
// loop because ok is reported false only at the end, so instead each slot is
// yielded with its presence folded into ok of a *filtered* sequence: the i-th
// call returns the i-th slot if present, otherwise advances. To keep this
// simple and sound the iteration visits every slot and reports ok=true with the
// slot's key/value only when present; absent slots are skipped by looping here.
func (x *Exec) nextOp(f *frame, in *ssa.Next, g *Term) Value {
	x.fail("map iteration (range over map) not supported at %s; use lookups in harnesses", x.pos(in.Pos()))
	return nil
}

// selectOp: a blocking select over receive cases. The chosen case is a free
// input ("select" stream); a receive from a channel that is only ever closed
// (never sent to) is enabled iff the channel is closed; a receive from a ticker
// channel is always enabled (a tick eventually arrives).
func (x *Exec) selectOp(f *frame, in *ssa.Select, g *Term) Value {
	u := x.U
	n := len(in.States)
	idx := x.Input(f, in, "select", 64, g)
	x.Assume(g, u.Cmp(OUlt, idx, u.Const(64, uint64(n))), "")
	vals := []Value{idx, u.True}
	for i, st := range in.States {
		if st.Dir != types.RecvOnly {
			x.fail("select with send cases not supported at %s", x.pos(in.Pos()))
		}
		ch, _ := x.operand(f, st.Chan).(OpaqueV)
		if ch.What == "chan" && ch.ID != 0 {
			closed := x.chanClosed[ch.ID]
			if closed == nil {
				closed = u.False
			}
			x.Assume(u.And(g, u.Eq(idx, u.Const(64, uint64(i)))), closed, "")
		}
		vals = append(vals, x.zero(st.Chan.Type().Underlying().(*types.Chan).Elem()))
	}
	return AggV{Elems: vals}
}

func (x *Exec) spawn(f *frame, in *ssa.Go, g *Term) {
	sp := Spawn{G: g, Pos: x.pos(in.Pos())}
	if !in.Call.IsInvoke() {
		sp.Fn = x.operand(f, in.Call.Value)
	}
	for _, a := range in.Call.Args {
		sp.Args = append(sp.Args, x.operand(f, a))
	}
	x.Spawned = append(x.Spawned, sp)
}
