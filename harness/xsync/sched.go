//go:build go1.21

package xsync

import "fmt"

// Native cooperative scheduler used when a solver model is replayed: the
// threads of VxPar run one at a time; thread t executes sched[r][t] visible
// operations (atomics, mutex/cond operations, Gosched) in round r, exactly the
// windows the symbolic encoding quantifies over. Plain code between two
// visible operations runs together with the following visible operation.

type vxThread struct {
	id      int
	wake    chan int // receives a budget
	budget  int
	done    bool
	blocked bool
	ops     int
}

type vxSched struct {
	threads    []*vxThread
	back       chan struct{}
	deadlocked bool
	diverged   bool // a thread blocked although the model said it could run
	free       bool // no scheduling at all (race replays)
}

func (s *vxSched) cur() *vxThread {
	if s == nil || VxRT == nil || VxRT.cur < 0 {
		return nil
	}
	return s.threads[VxRT.cur]
}

// vxEnter is called by every visible-operation shim before the operation.
func vxEnter() {
	if VxRT == nil || VxRT.sch == nil || VxRT.sch.free {
		return
	}
	th := VxRT.sch.cur()
	if th == nil {
		return
	}
	for th.budget == 0 {
		VxRT.sch.back <- struct{}{}
		th.budget = <-th.wake
	}
}

// vxExit is called after the operation. The thread keeps running its plain
// code and pauses in vxEnter of its next visible operation once the budget of
// the round is used up (plain code runs eagerly after the preceding visible op).
func vxExit() {
	if VxRT == nil || VxRT.sch == nil || VxRT.sch.free {
		return
	}
	th := VxRT.sch.cur()
	if th == nil {
		return
	}
	th.ops++
	th.budget--
}

// vxBlock parks the current thread until cond() holds (a disabled blocking operation).
func vxBlock(cond func() bool) {
	if VxRT == nil || VxRT.sch == nil || VxRT.sch.free {
		return
	}
	th := VxRT.sch.cur()
	if th == nil {
		if !cond() {
			panic("vx: blocking operation outside VxPar would block forever")
		}
		return
	}
	for !cond() {
		th.blocked = true
		VxRT.sch.back <- struct{}{}
		b := <-th.wake
		th.blocked = false
		if b > th.budget {
			th.budget = b
		}
	}
}

// VxPar runs fs as threads under the replay schedule.
func VxPar(fs ...func()) {
	r := VxRT
	if r == nil {
		for _, f := range fs {
			f()
		}
		return
	}
	s := &vxSched{back: make(chan struct{})}
	r.sch = s
	if r.VisAll || len(r.Sched) == 0 {
		// race replays: genuinely parallel goroutines, no cooperative hand-over
		// (a hand-over would order all accesses and hide the race)
		s.free = true
		done := make(chan struct{})
		for i, f := range fs {
			go func(i int, f func()) {
				defer func() { done <- struct{}{} }()
				f()
			}(i, f)
		}
		for range fs {
			<-done
		}
		return
	}
	for i := range fs {
		th := &vxThread{id: i, wake: make(chan int)}
		s.threads = append(s.threads, th)
	}
	// start: every thread runs its leading plain code up to its first visible operation
	for i, f := range fs {
		th := s.threads[i]
		r.cur = th.id
		go func(th *vxThread, f func()) {
			defer func() {
				if e := recover(); e != nil {
					r.mu.Lock()
					r.Failures = append(r.Failures, "panic in thread: "+fmt.Sprint(e))
					r.mu.Unlock()
				}
				th.done = true
				s.back <- struct{}{}
			}()
			f()
		}(th, f)
		<-s.back
		r.cur = -1
	}
	grant := func(th *vxThread, n int) {
		r.cur = th.id
		th.wake <- n
		<-s.back
		r.cur = -1
	}
	for _, row := range r.Sched {
		for t, th := range s.threads {
			if th.done || t >= len(row) || row[t] == 0 {
				continue
			}
			grant(th, row[t])
			if th.blocked {
				s.diverged = true
			}
		}
	}
	// drain: the model says every thread has finished by now; run what is left
	for progress := true; progress; {
		progress = false
		for _, th := range s.threads {
			if th.done {
				continue
			}
			before := th.ops
			grant(th, 1<<30)
			if th.done || th.ops > before {
				progress = true
			}
		}
	}
	for _, th := range s.threads {
		if !th.done {
			s.deadlocked = true
		}
	}
	r.sch = s
}

func VxYield() {
	vxEnter()
	vxExit()
}

func VxYieldEnter() { vxEnter() }
func VxYieldExit()  { vxExit() }

// VxParStalled: the writer runs a prefix of its visible operations (budget
// Sched[0][0]) and is then stalled for ever; the reader runs alone to the end.
func VxParStalled(w func(), rd func()) {
	r := VxRT
	if r == nil {
		w()
		rd()
		return
	}
	s := &vxSched{back: make(chan struct{})}
	r.sch = s
	th := &vxThread{id: 0, wake: make(chan int)}
	s.threads = []*vxThread{th, {id: 1}}
	go func() {
		th.budget = <-th.wake
		defer func() {
			recover()
			th.done = true
			s.back <- struct{}{}
		}()
		w()
	}()
	budget := 0
	if len(r.Sched) > 0 && len(r.Sched[0]) > 0 {
		budget = r.Sched[0][0]
	}
	r.cur = 0
	th.wake <- budget
	<-s.back
	// the writer is now parked (or done); the reader runs on this goroutine, unscheduled
	s.threads[1].budget = 1 << 30
	r.cur = 1
	rd()
	r.cur = -1
}
