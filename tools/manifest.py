#!/usr/bin/env python3
"""Regenerates /verif/MANIFEST.json from the table below (kept in one place so the manifest stays valid)."""
import json, os
V = os.path.join(os.path.dirname(os.path.abspath(__file__)), '..')
props = [json.loads(l)['id'] for l in open(os.path.join(V, 'properties.jsonl'))]
TRUST = ("Trusted: the go/ssa -> SMT encoder written for this task (validated on every run: one reachability witness per harness instance is replayed "
         "against the natively compiled code and every observed value compared; counterexamples are only reported when they reproduce natively), the "
         "environment stubs listed in the evidence file (hash function and table seed uninterpreted/free, virtual clock, SC atomics), go/ssa, z3 5.1. ")
claimed = {
 'C01': ("Bounded symbolic model checking of the real code: every Cache and CacheOf[string,any] method is executed symbolically (go/ssa -> QF_UFBV) on the real stack (cache layer + real xsync map) from an arbitrary pre-state with symbolic clock, TTL, default, keys, values, hash function and table seed, and compared with a reference TTL map written from the documentation. unsat = holds for every value inside the bound; sat = concrete counterexample, replayed natively.",
         "Bounds: 2 pre-state entries + 1 operation key, 1 call per step (inductive step from any stored state), table of 1 root bucket, clock < 2^62.",
         "solver-based bounded symbolic execution (go/ssa -> SMT, z3): inductive step vs reference TTL map, native replay"),
 'C02': ("Context-bounded symbolic scheduling: two cache calls run as two threads whose go/ssa code is executed symbolically in 3 rounds; the round boundaries are free bit-vector variables, so one SMT query ranges over every interleaving with up to 5 context switches at the granularity of atomic/lock operations. Oracle: linearizability against the TTL-map reference (results, final contents). The cache layer is the real code; the map behind the interface-typed `items` field is its atomic specification (assume-guarantee with C03/C04/C11).",
         "Bounds: 2 goroutines, 1 call each, <=5 context switches, 1 pre-state entry (live/expired/absent), clock frozen during the concurrent phase. The map under the cache is replaced by its linearizable specification (seam).",
         "solver-based context-bounded symbolic scheduling (go/ssa -> SMT, z3), linearizability oracle, native schedule replay"),
 'C03': ("Context-bounded symbolic scheduling of the real Map code (Load, doCompute, lockBucket/unlockBucket, top-hash helpers): two threads (1 op each, and 1 || 2 ops) from an arbitrary valid 1-bucket state, 2 rounds with symbolic boundaries (all interleavings with <=3 context switches at atomic-operation granularity), uninterpreted hash (top-hash collisions included). Oracle: linearizability vs reference map + quiescent Load/Size.",
         "Bounds: 2 goroutines, tables of 1 root bucket with <=1 pre-state entry, <=3 context switches, in the pair/triple instances executions that request a grow/shrink are outside (Clear pairs and more pairs at thorough); resize||op instances: one whole-table grow 1->2 buckets started directly with m.resize(table, hint), overlapping one call, in both thread orders (quick: Clear, Store; thorough: Load, Store, Delete; grow||Compute and shrink||Store on Map did not finish and are not registered). A grow requested from inside a Store overlapping another call, and larger tables, could not be encoded within reach (formula size); stated in DESIGN.md.",
         "solver-based context-bounded symbolic scheduling (go/ssa -> SMT, z3), linearizability oracle, native schedule replay"),
 'C05': ("Context-bounded symbolic scheduling of two racers on one key at map level (real Map/MapOf code) and cache level (real cache code over the map's atomic specification) with ghost call counters in the user functions: results, loaded flags and number of user-function calls must be those of a sequential order. Sequential 'exactly once, also across an internal retry after grow' is decided by the C11 step harnesses (grow inside the step).",
         "Bounds: 2 racers, <=3 (map level) / <=5 (cache level) context switches, key absent/live/expired.",
         "solver-based context-bounded symbolic scheduling with ghost counters"),
 'C06': ("Bounded symbolic execution of Delete/GetAndDelete/DeleteExpired on the real stack with a ledger-recording callback installed at construction or swapped by SetEvictedCallback (4 modes), from an arbitrary 2-entry pre-state: ledger == exactly the entries removed, with their own key and value. Cache and CacheOf.",
         "Bounds: 2 entries, 1 call. Concurrent ledger linearizability is checked by the C02 harness (second assertion).",
         "solver-based bounded symbolic execution with callback ledger"),
 'C07': ("Bounded symbolic execution: Range on the real Map/MapOf from arbitrary valid table states (1-2 root buckets, chains of 1-2 buckets, every occupancy) with a visitor that records and may stop at a symbolic position: duplicate-free enumeration of exactly the abstract content, immediate stop; cache-level Range/Items with 3 entries of symbolic expiry: exactly the unexpired ones, nil visitor ignored. Cache and CacheOf.",
         "Bounds: tables <=2 root buckets, chains <=3, 3 cache entries; concurrent part: Range || one writer on the real Map (2 goroutines, <=3 context switches, 1 root bucket) and Items || Set on the cache over the map's atomic specification with arbitrary placement of 3 entries. A traversal racing with a writer *inside* a bucket copy is a data race and is decided by C14.",
         "solver-based bounded symbolic execution of Range/Items"),
 'C09': ("Bounded symbolic execution of the real constructors (New+options in two orders, NewDefault, New()), config normalisation and every storing/refreshing/reading method with all int64 TTL, default, cleanup-interval and clock values symbolic: stored instant, GetWithExpiration/GetWithTTL reports, re-arm vs untouched, SetDefaultExpiration frame condition, visibility around the instant. Cache and CacheOf.",
         "Bounds: constructor + optional SetDefaultExpiration + optional pre-Set + 1 method + reads; clock < 2^61 then any later instant < 2^62; the 32-root-bucket table the constructor asks for is built with 1 root bucket; MinCapacity default.",
         "solver-based bounded symbolic execution over all int64 durations"),
 'C11': ("Bounded symbolic execution, inductive step: every Map / MapOf[int,int] / MapOf[string,any] operation from an arbitrary valid table state (every slot occupancy, hash values, seed, counters; representation invariant of DESIGN.md §2.9) - including a grow 1->2 buckets with rehash under a fresh symbolic seed inside the step - compared with a reference map; the representation invariant (incl. exact counters, locks free) is re-established.",
         "Bounds: shapes (root buckets, chain) (1,1) with grow; (2,1),(1,2) without grow at quick; MapOf buckets with 3 symbolic slots or concretely full; direct whole-table grow/shrink steps (m.resize) from chains of up to 3 buckets with holes and empty middle buckets. Size-hint arithmetic of the constructors is not covered.",
         "solver-based bounded symbolic execution: inductive step under a representation invariant"),
 'C12': ("Differential bounded symbolic execution: Cache and CacheOf[string,any] executed in one formula on shared symbolic inputs (pre-state, clock, TTL, key, value, callback present or not); every result, callback ledger, Count, stored (value, expiry) and the Items()/Range views of the post-state compared, for all 15 methods.",
         "Bounds: 2 pre-state entries, 1 call. Map vs MapOf twins are compared through their common reference map in C11.",
         "solver-based differential symbolic execution of the twins"),
 'C13': ("Bounded symbolic execution: evicted callbacks and Range visitors that re-enter the same cache (Get/Set/Delete/DeleteExpired) from Delete/GetAndDelete/DeleteExpired/Range - every call returns with all locks free (a lock still held at the call-out shows up as the mutex/spin lock being taken twice). Every VxPar run of C02/C03/C05 additionally carries a deadlock obligation (unfinished threads all parked at disabled blocking operations in the final memory); C13's own tier runs it on a call that meets a whole-table grow in progress (waitForResize / wake-up; thorough: a shrink abandoned or completed while an insert is in flight). In sequential code a bucket spin lock found held by the same goroutine is a self-deadlock obligation.",
         "Bounds: 2 entries, callbacks nested twice. Livelock under an unfair scheduler is outside a bounded check.",
         "solver-based bounded symbolic execution of re-entrant callbacks; deadlock query over symbolic schedules"),
}
claimed.update({
 'C04': ("Context-bounded symbolic scheduling of the real MapOf[int,int] code (Load with SWAR meta lookup, doCompute, bucket mutexes) as C03, with an uninterpreted hasher: bucket-index and 7-bit h2 collisions of the keys in play are inside the quantifier.",
         "Bounds: 2 goroutines, 1 op each (and 1 || 2), <=3 context switches, 1 root bucket with 2 symbolic slots and <=1 pre-state entry; plus resize||op: one whole-table grow 1->2 buckets (thorough: shrink 2->1) started directly with m.resize(table, hint) overlapping one call (quick: Clear, Store); a grow requested from inside a Store overlapping another call, and larger tables, are outside.",
         "solver-based context-bounded symbolic scheduling (go/ssa -> SMT, z3), linearizability oracle, native schedule replay"),
 'C08': ("Bounded symbolic execution: the striped counter sum == number of stored entries is part of the representation invariant every Map/MapOf step re-establishes (incl. the recount of a grow and the fresh table of Clear); cache Count == physically stored entries after every operation, == live entries after DeleteExpired, 0 after Clear; quiescent Size after two-goroutine runs with symbolic schedules (insert || delete of one key).",
         "Bounds: as C11 shapes; concurrent part 2 goroutines, 1 op each, <=3 context switches; a resize overlapping the calls only at the thorough tier (one whole-table grow 1->2 / shrink 2->1 buckets started directly, <=1 pre-state entry).",
         "solver-based bounded symbolic execution + symbolic schedules, counter invariant"),
 'C10': ("Two obligations. (a) Bounded symbolic execution of MapOf[K,int] steps for K in {struct{int8;int64} (padding), nested struct with string and array fields, bool, int8, *int incl. nil, string} under an uninterpreted hasher that respects == (any two distinct keys may collide in bucket, in h2 or completely): results equal the reference map's, i.e. two keys address the same entry iff Go == says so; pointer keys stay reachable after the pointee changes. (b) The real body of defaultHasher[K] is executed (reflect.TypeOf/Elem/Kind resolved on the static types, the reinterpretation of an interface variable as {typ, word} modelled with the gc ABI's layout) with runtime.typehash replaced by its contract - p must address a value of type t, equal values hash equally, a nil descriptor is a nil dereference - for K in {int, string, float64 (+0, -0, 1.5), padded struct, *int, any holding nil/int/string/*int/struct}: a short history (Store, Store, pointee change, Load, Size, Delete) must follow builtin-map semantics.",
         "Bounds: 1 root bucket, 2-3 symbolic slots (a); 3 keys and 6 calls (b). What runtime.typehash computes is trusted to meet its contract; NaN keys and key types outside the catalogue are outside.",
         "solver-based bounded symbolic execution over a key-type catalogue; default hasher body executed with runtime.typehash modelled by contract"),
 'C14': ("Symbolic data-race query: all heap accesses of two goroutines' go/ssa code are recorded with their scheduling group; the solver searches inputs and a schedule under which two conflicting accesses (same cell, one write, at least one plain) are adjacent; covers map operations incl. Size and overflow-bucket append vs the lock-free reader, safe publication of a freshly initialised pointee, and SetDefaultExpiration/SetEvictedCallback vs every reader of those settings. Counterexamples are confirmed by the Go race detector on a natively parallel run.",
         "Bounds: 2 goroutines, 1 call each, adjacency at the round boundaries of a 2-round schedule, 1-2 root buckets, no resize during the calls. Compiler/hardware reordering below the SC-for-atomics contract is trusted.",
         "solver-based symbolic data-race query, confirmed with go test -race"),
 'C16': ("Bounded symbolic execution with a symbolic stall point: the writer (Store, Compute/LoadOrCompute parked inside the user function while holding the bucket lock, Delete, Clear, or a whole-table grow stalled anywhere between its CAS on the resizing flag, the bucket copy and the publication of the new table) executes a free-length prefix of its visible operations and never resumes; the reader (Load, LoadOrStore hit path, Size) then runs alone: any disabled blocking operation, spin or unbounded loop of the reader is a violation, and its result must be the value before or after the writer's operation. Map and MapOf.",
         "Bounds: 1 root bucket with a chain of 1 or 2 buckets, <=2 pre-state entries, reader loops unwound 9 times; a stalled grow 1->2 buckets is included, stalled shrinks and larger tables are outside; cache level: 4 writers x 4 readers on the real stack (Cache and CacheOf).",
         "solver-based bounded symbolic execution with symbolic stall point"),
})
claimed_other = {
 'C15': ("Restricted claim, decided by bounded symbolic execution of the real constructors and of the janitor goroutine's body run as a call, plus reachability over the symbolic heap: a janitor is started iff the normalised cleanup interval is > 0 (all int64 values; New+options, NewDefault, New(); Cache and CacheOf) and its ticker gets exactly that interval; one tick - no user call - removes the expired entry, keeps the live one and fires the evicted callback; a finalizer is registered on the object handed to the user, that object is unreachable from everything the goroutine holds, and the finalizer closes the channel the goroutine selects on. NOT claimed: that ticks arrive within a bounded number of intervals of real time and that the collector runs the finalizer (Go runtime).",
         "Level 'other': part of the property's statement is about the Go runtime (timers, GC) and cannot be encoded; structural facts (spawn count, reachability, finalizer, closed channel) come from the symbolic heap and are not independently confirmed by the native replay, which confirms only what a janitor pass removes and reports.",
         "solver-based bounded symbolic execution of constructors and janitor body + symbolic-heap reachability"),
}
na_reason = {
 'C15': "check being built (structural claim on constructor/janitor; GC and ticker timing cannot be encoded)",
}
m = {"version": 1, "setup_cmd": "./setup.sh",
     "hooks": {"guard": "verif", "enable": "no source hooks in /repo: harnesses are injected with go/packages Overlay (symbolic side) and `go test -overlay` (native replay side); environment functions are redirected in rewritten scratch copies",
               "baseline_off_cmd": "cd /repo && go test -vet=off -count=1 ./...", "source_commits": [], "add_only": True},
     "engines": [{"name": "gsx", "path": "/verif/gsx", "serves_properties": props,
                  "kind_free_text": "go/ssa -> SMT (QF_UFBV) guarded symbolic executor with symbolic schedules; z3 5.1 (z3-new) back end, native replay of every counterexample"}],
     "checks": [], "not_applicable": [],
     "notes": "fix: commits in /repo: GetAndDelete expired (C01), Compute(delete) zero value (C11), DeleteExpired re-check under lock (C02/C06), default hasher for interface-typed keys (C10), Clear dropped when it loses the resize CAS (C03/C04); see known_findings.json"}
for p in props:
    if p in claimed_other:
        text, bounds, tech = claimed_other[p]
        m['checks'].append({"property_id": p, "quick_cmd": f"./check {p} quick", "thorough_cmd": f"./check {p} thorough",
                            "evidence_file": f"/verif/evidence/{p}.json", "replay_cmd_template": "./bin/gsx replay {path}", "engine": "gsx",
                            "level_claimed": {"category": "other", "text": text, "design_ref": "DESIGN.md §3 " + p},
                            "level_note": TRUST + bounds, "technique": tech})
    elif p in claimed:
        text, bounds, tech = claimed[p]
        m['checks'].append({"property_id": p, "quick_cmd": f"./check {p} quick", "thorough_cmd": f"./check {p} thorough",
                            "evidence_file": f"/verif/evidence/{p}.json", "replay_cmd_template": "./bin/gsx replay {path}", "engine": "gsx",
                            "level_claimed": {"category": "model_checking", "text": text, "design_ref": "DESIGN.md §3 " + p},
                            "level_note": TRUST + bounds, "technique": tech})
    else:
        m['not_applicable'].append({"property_id": p, "reason": na_reason.get(p, "not claimed")})
json.dump(m, open(os.path.join(V, 'MANIFEST.json'), 'w'), indent=1)
print("checks:", [c['property_id'] for c in m['checks']], "n/a:", [n['property_id'] for n in m['not_applicable']])
