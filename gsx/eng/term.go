// Package eng is the gsx engine: a guarded (merging) symbolic executor for
// go/ssa that produces QF_UFBV formulas. This file is the term layer:
// hash-consed Bool / BitVec DAG with constant folding and light rewriting.
package eng

import (
	"fmt"
	"math/bits"
	"strings"
)

type Op uint8

const (
	OConst Op = iota
	OVar
	ONot
	OAnd
	OOr
	OIte
	OEq
	OAdd
	OSub
	OMul
	OUDiv
	OURem
	OSDiv
	OSRem
	OBAnd
	OBOr
	OBXor
	OBNot
	ONeg
	OShl
	OLShr
	OAShr
	OUlt
	OUle
	OSlt
	OSle
	OExtract // x=hi y=lo
	OZext    // to width w
	OSext
	OConcat
	OApp // uninterpreted function name(args)
)

var opNames = map[Op]string{
	ONot: "not", OAnd: "and", OOr: "or", OIte: "ite", OEq: "=",
	OAdd: "bvadd", OSub: "bvsub", OMul: "bvmul", OUDiv: "bvudiv", OURem: "bvurem",
	OSDiv: "bvsdiv", OSRem: "bvsrem", OBAnd: "bvand", OBOr: "bvor", OBXor: "bvxor",
	OBNot: "bvnot", ONeg: "bvneg", OShl: "bvshl", OLShr: "bvlshr", OAShr: "bvashr",
	OUlt: "bvult", OUle: "bvule", OSlt: "bvslt", OSle: "bvsle", OConcat: "concat",
}

// Term is an immutable node. W==0 means Bool, otherwise a bit-vector width (1..64).
type Term struct {
	Op   Op
	W    int
	Args []*Term
	Val  uint64 // OConst
	Name string // OVar, OApp
	X, Y int    // OExtract hi/lo
	ID   int
}

type tkey struct {
	op         Op
	w          int
	a0, a1, a2 int
	val        uint64
	name       string
	x, y       int
}

// Univ is a term universe (one per harness instance; not goroutine-safe).
type Univ struct {
	tab   map[tkey]*Term
	appt  map[string]*Term
	all   []*Term
	True  *Term
	False *Term
	nvar  int
	Funs  map[string]*FunDecl
	// AppEval, when set, evaluates an uninterpreted application under a model (functional consistency + fallbacks)
	AppEval func(t *Term, env map[*Term]uint64, memo map[*Term]uint64) uint64
}

type FunDecl struct {
	Name string
	Args []int
	Ret  int
	// applications, for model evaluation / replay
	Apps []*Term
}

func NewUniv() *Univ {
	u := &Univ{tab: map[tkey]*Term{}, appt: map[string]*Term{}, Funs: map[string]*FunDecl{}}
	u.True = u.mk(tkey{op: OConst, w: 0, val: 1, a0: -1, a1: -1, a2: -1}, nil)
	u.False = u.mk(tkey{op: OConst, w: 0, val: 0, a0: -1, a1: -1, a2: -1}, nil)
	return u
}

func (u *Univ) NumTerms() int { return len(u.all) }

func (u *Univ) mk(k tkey, args []*Term) *Term {
	if t, ok := u.tab[k]; ok {
		return t
	}
	t := &Term{Op: k.op, W: k.w, Args: args, Val: k.val, Name: k.name, X: k.x, Y: k.y, ID: len(u.all)}
	u.all = append(u.all, t)
	u.tab[k] = t
	return t
}

func mask(w int) uint64 {
	if w >= 64 {
		return ^uint64(0)
	}
	return (uint64(1) << uint(w)) - 1
}

func (u *Univ) Const(w int, v uint64) *Term {
	if w == 0 {
		if v != 0 {
			return u.True
		}
		return u.False
	}
	return u.mk(tkey{op: OConst, w: w, val: v & mask(w), a0: -1, a1: -1, a2: -1}, nil)
}

func (u *Univ) Bool(b bool) *Term {
	if b {
		return u.True
	}
	return u.False
}

// Var makes a fresh-or-shared variable by name.
func (u *Univ) Var(name string, w int) *Term {
	return u.mk(tkey{op: OVar, w: w, name: name, a0: -1, a1: -1, a2: -1}, nil)
}

func (u *Univ) Fresh(prefix string, w int) *Term {
	u.nvar++
	return u.Var(fmt.Sprintf("%s!%d", prefix, u.nvar), w)
}

func (t *Term) IsConst() bool { return t.Op == OConst }
func (t *Term) IsTrue() bool  { return t.Op == OConst && t.W == 0 && t.Val == 1 }
func (t *Term) IsFalse() bool { return t.Op == OConst && t.W == 0 && t.Val == 0 }

func sext64(v uint64, w int) int64 {
	if w >= 64 {
		return int64(v)
	}
	sh := uint(64 - w)
	return int64(v<<sh) >> sh
}

func (u *Univ) un(op Op, w int, a *Term) *Term {
	return u.mk(tkey{op: op, w: w, a0: a.ID, a1: -1, a2: -1}, []*Term{a})
}
func (u *Univ) bin(op Op, w int, a, b *Term) *Term {
	return u.mk(tkey{op: op, w: w, a0: a.ID, a1: b.ID, a2: -1}, []*Term{a, b})
}

func (u *Univ) Not(a *Term) *Term {
	if a.W != 0 {
		panic("Not on non-bool")
	}
	if a.IsConst() {
		return u.Bool(a.Val == 0)
	}
	if a.Op == ONot {
		return a.Args[0]
	}
	return u.un(ONot, 0, a)
}

func isNegOf(a, b *Term) bool {
	return (a.Op == ONot && a.Args[0] == b) || (b.Op == ONot && b.Args[0] == a)
}

// conjuncts reports whether x occurs as a conjunct of a (shallow, bounded).
func hasConj(a, x *Term, depth int) bool {
	if a == x {
		return true
	}
	if a.Op == OAnd && depth > 0 {
		return hasConj(a.Args[0], x, depth-1) || hasConj(a.Args[1], x, depth-1)
	}
	return false
}
func hasDisj(a, x *Term, depth int) bool {
	if a == x {
		return true
	}
	if a.Op == OOr && depth > 0 {
		return hasDisj(a.Args[0], x, depth-1) || hasDisj(a.Args[1], x, depth-1)
	}
	return false
}

func (u *Univ) And(a, b *Term) *Term {
	if a.W != 0 || b.W != 0 {
		panic("And on non-bool")
	}
	if a.IsConst() {
		if a.Val == 0 {
			return u.False
		}
		return b
	}
	if b.IsConst() {
		if b.Val == 0 {
			return u.False
		}
		return a
	}
	if a == b {
		return a
	}
	if isNegOf(a, b) {
		return u.False
	}
	// a ∧ (… ∧ a ∧ …) = the latter;  a ∧ (… ∧ ¬a ∧ …) = false
	if hasConj(b, a, 6) {
		return b
	}
	if hasConj(a, b, 6) {
		return a
	}
	if b.Op == OAnd || a.Op == OAnd {
		na, nb := u.Not(a), u.Not(b)
		if hasConj(b, na, 6) || hasConj(a, nb, 6) {
			return u.False
		}
	}
	// a ∧ (a ∨ x) = a
	if b.Op == OOr && hasDisj(b, a, 4) {
		return a
	}
	if a.Op == OOr && hasDisj(a, b, 4) {
		return b
	}
	if a.ID > b.ID {
		a, b = b, a
	}
	return u.bin(OAnd, 0, a, b)
}

func (u *Univ) Or(a, b *Term) *Term {
	if a.W != 0 || b.W != 0 {
		panic("Or on non-bool")
	}
	if a.IsConst() {
		if a.Val == 1 {
			return u.True
		}
		return b
	}
	if b.IsConst() {
		if b.Val == 1 {
			return u.True
		}
		return a
	}
	if a == b {
		return a
	}
	if isNegOf(a, b) {
		return u.True
	}
	if hasDisj(b, a, 6) {
		return b
	}
	if hasDisj(a, b, 6) {
		return a
	}
	// (x ∧ y) ∨ (x ∧ ¬y) = x
	if a.Op == OAnd && b.Op == OAnd {
		for i := 0; i < 2; i++ {
			for j := 0; j < 2; j++ {
				if a.Args[i] == b.Args[j] && isNegOf(a.Args[1-i], b.Args[1-j]) {
					return a.Args[i]
				}
			}
		}
	}
	// a ∨ (a ∧ x) = a
	if b.Op == OAnd && hasConj(b, a, 4) {
		return a
	}
	if a.Op == OAnd && hasConj(a, b, 4) {
		return b
	}
	if a.ID > b.ID {
		a, b = b, a
	}
	return u.bin(OOr, 0, a, b)
}

func (u *Univ) Implies(a, b *Term) *Term { return u.Or(u.Not(a), b) }

func (u *Univ) AndN(ts ...*Term) *Term {
	r := u.True
	for _, t := range ts {
		r = u.And(r, t)
	}
	return r
}
func (u *Univ) OrN(ts ...*Term) *Term {
	r := u.False
	for _, t := range ts {
		r = u.Or(r, t)
	}
	return r
}

// constLeaves returns the leaves if t is a (small) ite-tree whose leaves are
// all constants.
func constLeafTree(t *Term, budget *int) bool {
	if *budget <= 0 {
		return false
	}
	*budget--
	if t.IsConst() {
		return true
	}
	if t.Op == OIte {
		return constLeafTree(t.Args[1], budget) && constLeafTree(t.Args[2], budget)
	}
	return false
}

func isConstTree(t *Term) bool {
	if t.IsConst() {
		return false // plain const handled elsewhere
	}
	b := 24
	return constLeafTree(t, &b)
}

// mapLeaves rebuilds an ite-tree applying f to every leaf.
func (u *Univ) mapLeaves(t *Term, f func(*Term) *Term) *Term {
	if t.Op == OIte {
		return u.Ite(t.Args[0], u.mapLeaves(t.Args[1], f), u.mapLeaves(t.Args[2], f))
	}
	return f(t)
}

// PossibleConsts over-approximates the set of values a term can take by
// set-valued evaluation (ite = union, operators applied pointwise); nil when
// the set is not finite/small (a free variable is involved).
func PossibleConsts(t *Term) []uint64 {
	memo := map[*Term][]uint64{}
	const cap = 64
	var rec func(t *Term) []uint64
	uniq := func(vs []uint64) []uint64 {
		seen := map[uint64]bool{}
		var out []uint64
		for _, v := range vs {
			if !seen[v] {
				seen[v] = true
				out = append(out, v)
			}
		}
		return out
	}
	rec = func(t *Term) []uint64 {
		if r, ok := memo[t]; ok {
			return r
		}
		var r []uint64
		switch t.Op {
		case OConst:
			r = []uint64{t.Val}
		case OIte:
			a, b := rec(t.Args[1]), rec(t.Args[2])
			if a != nil && b != nil {
				r = uniq(append(append([]uint64(nil), a...), b...))
			}
		case OExtract:
			if a := rec(t.Args[0]); a != nil {
				for _, v := range a {
					r = append(r, (v>>uint(t.Y))&mask(t.W))
				}
				r = uniq(r)
			}
		case OZext:
			r = rec(t.Args[0])
		case OSext:
			if a := rec(t.Args[0]); a != nil {
				for _, v := range a {
					r = append(r, uint64(sext64(v, t.Args[0].W))&mask(t.W))
				}
				r = uniq(r)
			}
		case OAdd, OSub, OMul, OUDiv, OURem, OSDiv, OSRem, OBAnd, OBOr, OBXor, OShl, OLShr, OAShr:
			a, b := rec(t.Args[0]), rec(t.Args[1])
			if a != nil && b != nil && len(a)*len(b) <= 4*cap {
				for _, x := range a {
					for _, y := range b {
						if v, ok := foldBin(t.Op, t.W, x, y); ok {
							r = append(r, v)
						}
					}
				}
				r = uniq(r)
			} else if t.Op == OBAnd {
				// x & smallconst has at most smallconst+1 values
				for _, side := range [][]uint64{a, b} {
					if len(side) == 1 && side[0] < 16 {
						for v := uint64(0); v <= side[0]; v++ {
							if v&side[0] == v {
								r = append(r, v)
							}
						}
					}
				}
			}
		case OBNot:
			if a := rec(t.Args[0]); a != nil {
				for _, v := range a {
					r = append(r, ^v&mask(t.W))
				}
			}
		case ONeg:
			if a := rec(t.Args[0]); a != nil {
				for _, v := range a {
					r = append(r, (-v)&mask(t.W))
				}
			}
		}
		if len(r) > cap {
			r = nil
		}
		memo[t] = r
		return r
	}
	return rec(t)
}

func (u *Univ) Ite(c, a, b *Term) *Term {
	if c.W != 0 {
		panic("Ite cond non-bool")
	}
	if a.W != b.W {
		panic(fmt.Sprintf("Ite width mismatch %d %d", a.W, b.W))
	}
	if c.IsConst() {
		if c.Val == 1 {
			return a
		}
		return b
	}
	if a == b {
		return a
	}
	if c.Op == ONot {
		return u.Ite(c.Args[0], b, a)
	}
	if a.W == 0 {
		if a.IsConst() && b.IsConst() {
			if a.Val == 1 {
				return c
			}
			return u.Not(c)
		}
		if a.IsTrue() {
			return u.Or(c, b)
		}
		if a.IsFalse() {
			return u.And(u.Not(c), b)
		}
		if b.IsTrue() {
			return u.Or(u.Not(c), a)
		}
		if b.IsFalse() {
			return u.And(c, a)
		}
	}
	if a.Op == OIte && a.Args[0] == c {
		a = a.Args[1]
	}
	if b.Op == OIte && b.Args[0] == c {
		b = b.Args[2]
	}
	if a == b {
		return a
	}
	// ite(c, x, ite(d, x, y)) = ite(c∨d, x, y)
	if b.Op == OIte && b.Args[1] == a {
		return u.Ite(u.Or(c, b.Args[0]), a, b.Args[2])
	}
	return u.mk(tkey{op: OIte, w: a.W, a0: c.ID, a1: a.ID, a2: b.ID}, []*Term{c, a, b})
}

func (u *Univ) Eq(a, b *Term) *Term {
	if a.W != b.W {
		panic(fmt.Sprintf("Eq width mismatch %d %d", a.W, b.W))
	}
	if a == b {
		return u.True
	}
	if a.IsConst() && b.IsConst() {
		return u.Bool(a.Val == b.Val)
	}
	if a.W == 0 {
		if a.IsConst() {
			a, b = b, a
		}
		if b.IsConst() {
			if b.Val == 1 {
				return a
			}
			return u.Not(a)
		}
	}
	if b.IsConst() && isConstTree(a) {
		return u.mapLeaves(a, func(l *Term) *Term { return u.Bool(l.Val == b.Val) })
	}
	if a.IsConst() && isConstTree(b) {
		return u.mapLeaves(b, func(l *Term) *Term { return u.Bool(l.Val == a.Val) })
	}
	if a.ID > b.ID {
		a, b = b, a
	}
	return u.bin(OEq, 0, a, b)
}

func (u *Univ) Ne(a, b *Term) *Term { return u.Not(u.Eq(a, b)) }

func foldBin(op Op, w int, x, y uint64) (uint64, bool) {
	m := mask(w)
	switch op {
	case OAdd:
		return (x + y) & m, true
	case OSub:
		return (x - y) & m, true
	case OMul:
		return (x * y) & m, true
	case OUDiv:
		if y == 0 {
			return m, true
		}
		return x / y, true
	case OURem:
		if y == 0 {
			return x, true
		}
		return x % y, true
	case OSDiv:
		sx, sy := sext64(x, w), sext64(y, w)
		if sy == 0 {
			if sx < 0 {
				return 1, true
			}
			return m, true
		}
		if sy == -1 {
			return uint64(-sx) & m, true
		}
		return uint64(sx/sy) & m, true
	case OSRem:
		sx, sy := sext64(x, w), sext64(y, w)
		if sy == 0 {
			return x, true
		}
		if sy == -1 {
			return 0, true
		}
		return uint64(sx%sy) & m, true
	case OBAnd:
		return x & y, true
	case OBOr:
		return x | y, true
	case OBXor:
		return x ^ y, true
	case OShl:
		if y >= uint64(w) {
			return 0, true
		}
		return (x << y) & m, true
	case OLShr:
		if y >= uint64(w) {
			return 0, true
		}
		return x >> y, true
	case OAShr:
		sx := sext64(x, w)
		if y >= uint64(w) {
			if sx < 0 {
				return m, true
			}
			return 0, true
		}
		return uint64(sx>>y) & m, true
	}
	return 0, false
}

// BV builds a bit-vector binary operation.
func (u *Univ) BV(op Op, a, b *Term) *Term {
	if a.W != b.W || a.W == 0 {
		panic(fmt.Sprintf("BV op %v width mismatch %d %d", opNames[op], a.W, b.W))
	}
	w := a.W
	if a.IsConst() && b.IsConst() {
		if v, ok := foldBin(op, w, a.Val, b.Val); ok {
			return u.Const(w, v)
		}
	}
	// lift over small constant ite-trees
	if b.IsConst() && isConstTree(a) {
		return u.mapLeaves(a, func(l *Term) *Term { return u.BV(op, l, b) })
	}
	if a.IsConst() && isConstTree(b) {
		return u.mapLeaves(b, func(l *Term) *Term { return u.BV(op, a, l) })
	}
	switch op {
	case OAdd:
		if a.IsConst() && a.Val == 0 {
			return b
		}
		if b.IsConst() && b.Val == 0 {
			return a
		}
		// (p - q) + q = p
		if a.Op == OSub && a.Args[1] == b {
			return a.Args[0]
		}
		if b.Op == OSub && b.Args[1] == a {
			return b.Args[0]
		}
		// (p + k1) + k2 = p + (k1+k2)
		if b.IsConst() && a.Op == OAdd && a.Args[1].IsConst() {
			return u.BV(OAdd, a.Args[0], u.Const(w, a.Args[1].Val+b.Val))
		}
		if b.IsConst() && a.Op == OAdd && a.Args[0].IsConst() {
			return u.BV(OAdd, a.Args[1], u.Const(w, a.Args[0].Val+b.Val))
		}
	case OSub:
		// (p + q) - q = p
		if a.Op == OAdd && a.Args[1] == b {
			return a.Args[0]
		}
		if a.Op == OAdd && a.Args[0] == b {
			return a.Args[1]
		}
		if b.IsConst() && b.Val != 0 {
			return u.BV(OAdd, a, u.Const(w, -b.Val))
		}
		if b.IsConst() && b.Val == 0 {
			return a
		}
		if a == b {
			return u.Const(w, 0)
		}
	case OMul:
		if a.IsConst() && a.Val == 1 {
			return b
		}
		if b.IsConst() && b.Val == 1 {
			return a
		}
		if (a.IsConst() && a.Val == 0) || (b.IsConst() && b.Val == 0) {
			return u.Const(w, 0)
		}
	case OBAnd:
		if a == b {
			return a
		}
		if a.IsConst() {
			a, b = b, a
		}
		if b.IsConst() {
			if b.Val == 0 {
				return b
			}
			if b.Val == mask(w) {
				return a
			}
		}
	case OBOr:
		if a == b {
			return a
		}
		if a.IsConst() {
			a, b = b, a
		}
		if b.IsConst() {
			if b.Val == 0 {
				return a
			}
			if b.Val == mask(w) {
				return b
			}
		}
	case OBXor:
		if a == b {
			return u.Const(w, 0)
		}
		if b.IsConst() && b.Val == 0 {
			return a
		}
		if a.IsConst() && a.Val == 0 {
			return b
		}
	case OShl, OLShr, OAShr:
		if b.IsConst() && b.Val == 0 {
			return a
		}
	}
	switch op {
	case OAdd, OMul, OBAnd, OBOr, OBXor:
		if a.ID > b.ID {
			a, b = b, a
		}
	}
	return u.bin(op, w, a, b)
}

func (u *Univ) Cmp(op Op, a, b *Term) *Term {
	if a.W != b.W || a.W == 0 {
		panic("Cmp width mismatch")
	}
	w := a.W
	if a.IsConst() && b.IsConst() {
		switch op {
		case OUlt:
			return u.Bool(a.Val < b.Val)
		case OUle:
			return u.Bool(a.Val <= b.Val)
		case OSlt:
			return u.Bool(sext64(a.Val, w) < sext64(b.Val, w))
		case OSle:
			return u.Bool(sext64(a.Val, w) <= sext64(b.Val, w))
		}
	}
	if b.IsConst() && isConstTree(a) {
		return u.mapLeaves(a, func(l *Term) *Term { return u.Cmp(op, l, b) })
	}
	if a.IsConst() && isConstTree(b) {
		return u.mapLeaves(b, func(l *Term) *Term { return u.Cmp(op, a, l) })
	}
	if a == b {
		return u.Bool(op == OUle || op == OSle)
	}
	return u.bin(op, 0, a, b)
}

func (u *Univ) BNot(a *Term) *Term {
	if a.IsConst() {
		return u.Const(a.W, ^a.Val)
	}
	if a.Op == OBNot {
		return a.Args[0]
	}
	return u.un(OBNot, a.W, a)
}

func (u *Univ) Neg(a *Term) *Term {
	if a.IsConst() {
		return u.Const(a.W, -a.Val)
	}
	return u.un(ONeg, a.W, a)
}

func (u *Univ) Extract(a *Term, hi, lo int) *Term {
	w := hi - lo + 1
	if lo == 0 && w == a.W {
		return a
	}
	if a.IsConst() {
		return u.Const(w, a.Val>>uint(lo))
	}
	if isConstTree(a) {
		return u.mapLeaves(a, func(l *Term) *Term { return u.Extract(l, hi, lo) })
	}
	if (a.Op == OZext || a.Op == OSext) && hi < a.Args[0].W {
		return u.Extract(a.Args[0], hi, lo)
	}
	return u.mk(tkey{op: OExtract, w: w, a0: a.ID, a1: -1, a2: -1, x: hi, y: lo}, []*Term{a})
}

func (u *Univ) Zext(a *Term, w int) *Term {
	if w == a.W {
		return a
	}
	if w < a.W {
		return u.Extract(a, w-1, 0)
	}
	if a.IsConst() {
		return u.Const(w, a.Val)
	}
	if isConstTree(a) {
		return u.mapLeaves(a, func(l *Term) *Term { return u.Zext(l, w) })
	}
	return u.un(OZext, w, a)
}

func (u *Univ) Sext(a *Term, w int) *Term {
	if w == a.W {
		return a
	}
	if w < a.W {
		return u.Extract(a, w-1, 0)
	}
	if a.IsConst() {
		return u.Const(w, uint64(sext64(a.Val, a.W)))
	}
	if isConstTree(a) {
		return u.mapLeaves(a, func(l *Term) *Term { return u.Sext(l, w) })
	}
	return u.un(OSext, w, a)
}

// App applies an uninterpreted function.
func (u *Univ) App(name string, ret int, args ...*Term) *Term {
	fd := u.Funs[name]
	if fd == nil {
		fd = &FunDecl{Name: name, Ret: ret}
		for _, a := range args {
			fd.Args = append(fd.Args, a.W)
		}
		u.Funs[name] = fd
	}
	var sb strings.Builder
	sb.WriteString(name)
	for _, a := range args {
		fmt.Fprintf(&sb, ",%d", a.ID)
	}
	if t, ok := u.appt[sb.String()]; ok {
		return t
	}
	t := &Term{Op: OApp, W: ret, Args: append([]*Term(nil), args...), Name: name, ID: len(u.all)}
	u.all = append(u.all, t)
	u.appt[sb.String()] = t
	fd.Apps = append(fd.Apps, t)
	return t
}

// Ctz64 = number of trailing zeros of a 64-bit term as a 64-bit term.
func (u *Univ) Ctz(a *Term) *Term {
	if a.IsConst() {
		if a.Val == 0 {
			return u.Const(a.W, uint64(a.W))
		}
		return u.Const(a.W, uint64(bits.TrailingZeros64(a.Val)))
	}
	r := u.Const(a.W, uint64(a.W))
	for i := a.W - 1; i >= 0; i-- {
		bit := u.Eq(u.Extract(a, i, i), u.Const(1, 1))
		r = u.Ite(bit, u.Const(a.W, uint64(i)), r)
	}
	return r
}

func (t *Term) String() string {
	switch t.Op {
	case OConst:
		if t.W == 0 {
			if t.Val == 1 {
				return "true"
			}
			return "false"
		}
		return fmt.Sprintf("%d:bv%d", t.Val, t.W)
	case OVar:
		return t.Name
	}
	return fmt.Sprintf("n%d", t.ID)
}

// Eval evaluates a term under an assignment of variables and UF apps.
func (u *Univ) Eval(t *Term, env map[*Term]uint64, memo map[*Term]uint64) uint64 {
	if v, ok := memo[t]; ok {
		return v
	}
	var r uint64
	ev := func(i int) uint64 { return u.Eval(t.Args[i], env, memo) }
	switch t.Op {
	case OConst:
		r = t.Val
	case OVar:
		r = env[t] & mask1(t.W)
	case OApp:
		if u.AppEval != nil {
			r = u.AppEval(t, env, memo) & mask1(t.W)
		} else {
			r = env[t] & mask1(t.W)
		}
	case ONot:
		r = 1 - ev(0)
	case OAnd:
		r = ev(0) & ev(1)
	case OOr:
		r = ev(0) | ev(1)
	case OIte:
		if ev(0) == 1 {
			r = ev(1)
		} else {
			r = ev(2)
		}
	case OEq:
		if ev(0) == ev(1) {
			r = 1
		}
	case OBNot:
		r = ^ev(0) & mask(t.W)
	case ONeg:
		r = (-ev(0)) & mask(t.W)
	case OUlt:
		r = b2u(ev(0) < ev(1))
	case OUle:
		r = b2u(ev(0) <= ev(1))
	case OSlt:
		w := t.Args[0].W
		r = b2u(sext64(ev(0), w) < sext64(ev(1), w))
	case OSle:
		w := t.Args[0].W
		r = b2u(sext64(ev(0), w) <= sext64(ev(1), w))
	case OExtract:
		r = (ev(0) >> uint(t.Y)) & mask(t.W)
	case OZext:
		r = ev(0)
	case OSext:
		r = uint64(sext64(ev(0), t.Args[0].W)) & mask(t.W)
	case OConcat:
		r = (ev(0)<<uint(t.Args[1].W) | ev(1)) & mask(t.W)
	default:
		v, ok := foldBin(t.Op, t.W, ev(0), ev(1))
		if !ok {
			panic("eval: unhandled op")
		}
		r = v
	}
	memo[t] = r
	return r
}

func mask1(w int) uint64 {
	if w == 0 {
		return 1
	}
	return mask(w)
}

func b2u(b bool) uint64 {
	if b {
		return 1
	}
	return 0
}


// Show renders a term as an s-expression up to the given depth (debugging).
func (t *Term) Show(d int) string {
	if t.Op == OConst || t.Op == OVar || d == 0 {
		return t.String()
	}
	n := opNames[t.Op]
	if n == "" {
		n = fmt.Sprintf("op%d", t.Op)
	}
	if t.Op == OApp {
		n = t.Name
	}
	s := "(" + n
	for _, a := range t.Args {
		s += " " + a.Show(d-1)
	}
	return s + ")"
}
