//go:build go1.21

package cache

import (
	"sync/atomic"

	"github.com/fufuok/cache/internal/xsync"
)

// vxAtomicValue replaces atomic.Value in the scratch copy (scheduling points).
type vxAtomicValue struct {
	v atomic.Value
}

func (a *vxAtomicValue) Load() any {
	xsync.VxYieldEnter()
	v := a.v.Load()
	xsync.VxYieldExit()
	return v
}

func (a *vxAtomicValue) Store(x any) {
	xsync.VxYieldEnter()
	a.v.Store(x)
	xsync.VxYieldExit()
}
