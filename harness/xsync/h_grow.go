//go:build go1.21

package xsync

import (
	"sync/atomic"
)

// VxH_Map_resizePar: a table resize (resize called directly with the grow or
// shrink hint, as doCompute / deletion do when a chain is full / the table is
// sparse) runs concurrently with one operation B on an arbitrary valid table.
// A grow or shrink has no abstract effect, so B's result must be the
// sequential one and the quiescent map must equal the reference content after
// B: no write lost in the old table, no deleted entry resurrected by the copy,
// Size exact, resizing flag clear.
func VxH_Map_resizePar(opB, hint, tableLen, mode, order int) {
	m, c := vxArbMap(tableLen, 1, 1)
	t := (*mapTable)(atomic.LoadPointer(&m.table))
	kB := VxStr("kB")
	if mode >= 0 {
		VxAssume(c.count() <= mode)
	}
	nvB := VxInt("nvB")
	delB := VxBool("delB")
	for i := 0; i < vxMaxEnt-4; i++ {
		VxAssume(!c.ok[i] || c.v[i] != interface{}(nvB))
	}
	var rB vxRes
	VxReach("pre-state built")
	// order: which thread moves first in each round (2 rounds: resize,op,resize,op or op,resize,op,resize)
	if order == 0 {
		VxPar(
			func() { m.resize(t, mapResizeHint(hint)) },
			func() { rB = vxMapDo(m, opB, kB, nvB, delB) },
		)
	} else {
		VxPar(
			func() { rB = vxMapDo(m, opB, kB, nvB, delB) },
			func() { m.resize(t, mapResizeHint(hint)) },
		)
	}
	VxReach("both threads finished")
	VxObserve("B.ok", rB.ok)
	c1 := *c
	eB := vxRefDo(&c1, opB, kB, nvB, delB)
	VxAssert(vxResEq(rB, eB), "a concurrent resize does not change what the operation returns")
	VxAssert(vxFinalEq(m, &c1, kB, kB), "no write lost, no entry resurrected, Size exact after a concurrent resize: the quiescent map equals the reference content")
	nt := (*mapTable)(atomic.LoadPointer(&m.table))
	VxAssert(atomic.LoadInt64(&m.resizing) == 0, "the resizing flag is clear once every call has returned")
	if opB == mopClear {
		VxAssert(len(nt.buckets) == 1 || (mapResizeHint(hint) == mapGrowHint && len(nt.buckets) == 2*tableLen), "Clear: table reset to its minimum, or doubled by a grow ordered after the Clear")
	} else if mapResizeHint(hint) == mapGrowHint {
		VxAssert(len(nt.buckets) == 2*tableLen, "the grow completed: table doubled")
	} else {
		VxAssert(len(nt.buckets) == tableLen || len(nt.buckets) == tableLen/2, "shrink: table kept or halved")
	}
}

// VxH_MapOf_resizePar: MapOf[int,int] twin of VxH_Map_resizePar.
func VxH_MapOf_resizePar(opB, hint, tableLen, mode, slots, order int) {
	m, c := vxArbMapOf[int, int](tableLen, 1, 1, slots, slots, VxIntHasher, vxIntKey, vxIntVal)
	t := (*mapOfTable[int, int])(atomic.LoadPointer(&m.table))
	kB := VxInt("kB")
	if mode >= 0 {
		VxAssume(c.count() <= mode)
	}
	nvB := VxInt("nvB")
	delB := VxBool("delB")
	for i := 0; i < vxMaxEnt-4; i++ {
		VxAssume(!c.ok[i] || c.v[i] != nvB)
	}
	var rB vxResOf
	VxReach("pre-state built")
	if order == 0 {
		VxPar(
			func() { m.resize(t, mapResizeHint(hint)) },
			func() { rB = vxMapOfDo(m, opB, kB, nvB, delB) },
		)
	} else {
		VxPar(
			func() { rB = vxMapOfDo(m, opB, kB, nvB, delB) },
			func() { m.resize(t, mapResizeHint(hint)) },
		)
	}
	VxReach("both threads finished")
	VxObserve("B.ok", rB.ok)
	c1 := *c
	eB := vxRefDoOf(&c1, opB, kB, nvB, delB)
	VxAssert(vxResEqOf(rB, eB), "a concurrent resize does not change what the operation returns")
	VxAssert(vxFinalEqOf(m, &c1, kB, kB), "no write lost, no entry resurrected, Size exact after a concurrent resize: the quiescent map equals the reference content")
	nt := (*mapOfTable[int, int])(atomic.LoadPointer(&m.table))
	VxAssert(atomic.LoadInt64(&m.resizing) == 0, "the resizing flag is clear once every call has returned")
	if opB == mopClear {
		VxAssert(len(nt.buckets) == 1 || (mapResizeHint(hint) == mapGrowHint && len(nt.buckets) == 2*tableLen), "Clear: table reset to its minimum, or doubled by a grow ordered after the Clear")
	} else if mapResizeHint(hint) == mapGrowHint {
		VxAssert(len(nt.buckets) == 2*tableLen, "the grow completed: table doubled")
	} else {
		VxAssert(len(nt.buckets) == tableLen || len(nt.buckets) == tableLen/2, "shrink: table kept or halved")
	}
}

// VxH_Map_stalledGrow (C16): a grow is stalled after an arbitrary prefix of
// its visible operations (between the CAS on the resizing flag, any step of
// the bucket copy, and the publication of the new table); the reader then
// runs alone, must not wait and must see the pre-state (a grow changes nothing).
func VxH_Map_stalledGrow(rop, mode int) {
	m, c := vxArbMap(1, 1, 1)
	t := (*mapTable)(atomic.LoadPointer(&m.table))
	kR := VxStr("kR")
	if mode >= 0 {
		VxAssume(c.count() <= mode)
	}
	var rv interface{}
	var rok bool
	var size int
	bv, bok := c.get(kR)
	if rop == mopLoadOrStore {
		VxAssume(bok) // hit path only
	}
	VxReach("pre-state built")
	VxParStalled(
		func() { m.resize(t, mapGrowHint) },
		func() {
			switch rop {
			case mopLoad:
				rv, rok = m.Load(kR)
			case mopLoadOrStore:
				rv, rok = m.LoadOrStore(kR, 12345)
			case mopSize:
				size = m.Size()
			}
		},
	)
	VxReach("reader finished")
	VxObserve("r.ok", rok)
	switch rop {
	case mopLoad, mopLoadOrStore:
		VxAssert(rok == bok && rv == bv, "stalled grow: the lookup returns the stored value without waiting")
	case mopSize:
		VxAssert(size == c.count(), "stalled grow: Size reports the number of entries")
	}
}

func VxH_MapOf_stalledGrow(rop, mode, slots int) {
	m, c := vxArbMapOf[int, int](1, 1, 1, slots, slots, VxIntHasher, vxIntKey, vxIntVal)
	t := (*mapOfTable[int, int])(atomic.LoadPointer(&m.table))
	kR := VxInt("kR")
	if mode >= 0 {
		VxAssume(c.count() <= mode)
	}
	var rv int
	var rok bool
	var size int
	bv, bok := c.get(kR)
	if rop == mopLoadOrStore {
		VxAssume(bok) // hit path only
	}
	VxReach("pre-state built")
	VxParStalled(
		func() { m.resize(t, mapGrowHint) },
		func() {
			switch rop {
			case mopLoad:
				rv, rok = m.Load(kR)
			case mopLoadOrStore:
				rv, rok = m.LoadOrStore(kR, 12345)
			case mopSize:
				size = m.Size()
			}
		},
	)
	VxReach("reader finished")
	VxObserve("r.ok", rok)
	switch rop {
	case mopLoad, mopLoadOrStore:
		VxAssert(rok == bok && rv == bv, "stalled grow: the lookup returns the stored value without waiting")
	case mopSize:
		VxAssert(size == c.count(), "stalled grow: Size reports the number of entries")
	}
}

// VxH_Map_resizeStep / VxH_MapOf_resizeStep (C11): one whole-table grow or
// shrink, started directly, from an arbitrary valid table (chains with holes
// and empty middle buckets included). The copy must carry over exactly the
// content and re-establish the representation invariant.
func VxH_Map_resizeStep(hint, tableLen, chain, minLen int) {
	m, c := vxArbMap(tableLen, chain, minLen)
	t := (*mapTable)(atomic.LoadPointer(&m.table))
	k := VxStr("k")
	VxReach("pre-state built")
	m.resize(t, mapResizeHint(hint))
	VxReach("resize returned")
	nt := (*mapTable)(atomic.LoadPointer(&m.table))
	VxObserve("len", len(nt.buckets))
	if mapResizeHint(hint) == mapGrowHint {
		VxAssert(len(nt.buckets) == 2*tableLen, "grow: table doubled")
	} else {
		VxAssert(len(nt.buckets) == tableLen || len(nt.buckets) == tableLen/2, "shrink: table kept or halved")
	}
	vxCheckMap(m, c, k)
}

func VxH_MapOf_resizeStep(hint, tableLen, chain, minLen, slots int) {
	m, c := vxArbMapOf[int, int](tableLen, chain, minLen, slots, slots, VxIntHasher, vxIntKey, vxIntVal)
	t := (*mapOfTable[int, int])(atomic.LoadPointer(&m.table))
	k := VxInt("k")
	VxReach("pre-state built")
	m.resize(t, mapResizeHint(hint))
	VxReach("resize returned")
	nt := (*mapOfTable[int, int])(atomic.LoadPointer(&m.table))
	VxObserve("len", len(nt.buckets))
	if mapResizeHint(hint) == mapGrowHint {
		VxAssert(len(nt.buckets) == 2*tableLen, "grow: table doubled")
	} else {
		VxAssert(len(nt.buckets) == tableLen || len(nt.buckets) == tableLen/2, "shrink: table kept or halved")
	}
	vxCheckMapOf(m, c, k)
}
