#!/bin/sh
# Build the gsx engine from files on disk only (offline).
set -e
cd "$(dirname "$0")/gsx"
export GOFLAGS=-mod=mod GOPROXY=off GOSUMDB=off GOTOOLCHAIN=local
go build -o ../bin/gsx ./cmd/gsx
