package main

import (
	"flag"
	"fmt"
	"os"
	"strconv"
	"strings"
	"time"

	"gsx/eng"
)

func main() {
	if len(os.Args) < 2 {
		fmt.Println("usage: gsx run <pkg> <Func> [args...] | gsx check <prop> --tier quick")
		os.Exit(2)
	}
	switch os.Args[1] {
	case "run":
		runCmd(os.Args[2:])
	case "check":
		os.Exit(checkCmd(os.Args[2:]))
	default:
		fmt.Println("unknown command")
		os.Exit(2)
	}
}

func runCmd(args []string) {
	fs := flag.NewFlagSet("run", flag.ExitOnError)
	rounds := fs.Int("rounds", 2, "rounds")
	unwind := fs.Int("unwind", 4, "default unwind")
	solver := fs.String("solver", "z3-new", "solver")
	logf := fs.String("log", "", "smt log")
	fs.Parse(args)
	rest := fs.Args()
	ov, _, err := eng.HarnessOverlay("/verif/harness")
	if err != nil {
		panic(err)
	}
	L, err := eng.Load(ov)
	if err != nil {
		fmt.Println("load error:", err)
		os.Exit(2)
	}
	fmt.Println("loaded in", L.LoadDur)
	inst := eng.Instance{Name: rest[1], Pkg: rest[0], Func: rest[1], Cfg: eng.Config{Rounds: *rounds, DefaultUnwind: *unwind}}
	for _, a := range rest[2:] {
		v, _ := strconv.ParseInt(a, 0, 64)
		inst.Args = append(inst.Args, v)
	}
	t0 := time.Now()
	x, err := L.Execute(inst)
	if err != nil {
		fmt.Println("exec error:", err)
		os.Exit(2)
	}
	fmt.Printf("executed: %d instrs, %d terms, %d obligations, %d assumes in %v (feasibility queries %d, pruned %d, %v)\n", x.NInstr, x.U.NumTerms(), len(x.Obligs), len(x.Assumes), time.Since(t0), x.FeasQ, x.FeasPruned, x.FeasTime)
	r := eng.Discharge(x, inst, eng.SolveOpts{Solver: *solver, LogFile: *logf})
	fmt.Printf("status=%s err=%q queries=%d (unsat %d sat %d unknown %d) solver=%v reach %d/%d\n", r.Status, r.Err, r.Queries, r.Unsat, r.Sat, r.Unknown, r.SolverTime, r.ReachSat, r.ReachTotal)
	for _, v := range r.Violations {
		fmt.Printf("VIOLATION %s: %s at %s\n", v.Oblig.Kind, v.Oblig.Msg, v.Oblig.Pos)
		for _, name := range x.StreamOrd {
			var vs []string
			for _, e := range x.Streams[name] {
				if v.Model.Eval(e.G) == 1 {
					vs = append(vs, fmt.Sprintf("%#x", v.Model.Eval(e.T)))
				}
			}
			fmt.Printf("   %s = %s\n", name, strings.Join(vs, ","))
		}
	}
}
