//go:build go1.21

package cache

import (
	"time"

	"github.com/fufuok/cache/internal/xsync"
)

// Kind-specific glue: everything the (generated) CacheOf harnesses need to be
// textually identical to the Cache harnesses.

// The caches are built by the real constructor (no janitor) and configured
// through the public setters, so the harnesses do not depend on how the
// settings are represented; only the map behind `items` is swapped for a small
// real table (or the seam).
func vxNewCache(tableLen int, defExp time.Duration, ec EvictedCallback) *xsyncMap {
	c := newXsyncMap(Config{CleanupInterval: 0}).(*xsyncMapWrapper).xsyncMap
	c.items = xsync.VxNewMap(tableLen, tableLen)
	c.SetDefaultExpiration(defExp)
	c.SetEvictedCallback(ec)
	return c
}

func vxNewCacheOf(tableLen int, defExp time.Duration, ec EvictedCallbackOf[string, interface{}]) *xsyncMapOf[string, interface{}] {
	c := newXsyncMapOf[string, interface{}](ConfigOf[string, interface{}]{CleanupInterval: 0}).(*xsyncMapOfWrapper[string, interface{}]).xsyncMapOf
	c.items = xsync.VxNewMapOf[string, itemOf[interface{}]](tableLen, tableLen, xsync.VxStrHasher)
	c.SetDefaultExpiration(defExp)
	c.SetEvictedCallback(ec)
	return c
}

func vxPut(c *xsyncMap, k string, v interface{}, e int64) { c.items.Store(k, item{v, e}) }

func vxPutOf(c *xsyncMapOf[string, interface{}], k string, v interface{}, e int64) {
	c.items.Store(k, itemOf[interface{}]{v, e})
}

func vxPeek(c *xsyncMap, k string) (interface{}, int64, bool) {
	iv, ok := c.items.Load(k)
	if !ok {
		return nil, 0, false
	}
	it := iv.(item)
	return it.v, it.e, true
}

func vxPeekOf(c *xsyncMapOf[string, interface{}], k string) (interface{}, int64, bool) {
	it, ok := c.items.Load(k)
	if !ok {
		return nil, 0, false
	}
	return it.v, it.e, true
}

func vxQuiescent(c *xsyncMap) bool { return xsync.VxMapQuiescent(c.items.(*xsync.Map)) }

func vxQuiescentOf(c *xsyncMapOf[string, interface{}]) bool {
	return xsync.VxMapOfQuiescent(c.items.(*xsync.MapOf[string, itemOf[interface{}]]))
}
