//go:build go1.21

package xsync

// C14: data-race query. Two threads run one operation each on the real map;
// every heap access is recorded and the race obligation asks whether two
// conflicting accesses (at least one plain) can be adjacent.

func VxH_Map_race(opA, opB, tableLen, chain, minLen, mode int) {
	forced := 0
	if mode == 100 {
		forced, mode = 1, -1
	}
	m, c := vxArbMap(tableLen, chain, minLen, forced)
	kA, kB := VxStr("kA"), VxStr("kB")
	if mode >= 0 {
		VxAssume(c.count() <= mode)
	}
	nvA, nvB := VxInt("nvA"), VxInt("nvB")
	delA, delB := VxBool("delA"), VxBool("delB")
	VxReach("pre-state built")
	VxPar(
		func() { vxMapDo(m, opA, kA, nvA, delA) },
		func() { vxMapDo(m, opB, kB, nvB, delB) },
	)
	VxReach("both threads finished")
	VxObserve("size", m.Size())
}

func VxH_MapOf_race(opA, opB, tableLen, chain, minLen, mode, slots0, slots1 int) {
	m, c := vxArbMapOf[int, int](tableLen, chain, minLen, slots0, slots1, VxIntHasher, vxIntKey, vxIntVal)
	kA, kB := VxInt("kA"), VxInt("kB")
	if mode >= 10 {
		VxAssume(kA == kB) // both threads address one key
		mode -= 10
	}
	if mode >= 0 {
		VxAssume(c.count() <= mode)
	}
	nvA, nvB := VxInt("nvA"), VxInt("nvB")
	delA, delB := VxBool("delA"), VxBool("delB")
	VxReach("pre-state built")
	VxPar(
		func() { vxMapOfDo(m, opA, kA, nvA, delA) },
		func() { vxMapOfDo(m, opB, kB, nvB, delB) },
	)
	VxReach("both threads finished")
	VxObserve("size", m.Size())
}

// VxH_Map_publish: safe publication. The value stored is a pointer to memory
// initialised just before; a reader that obtains the pointer reads through it.
func VxH_Map_publish(tableLen int) {
	m := VxNewMap(tableLen, tableLen)
	k := VxStr("k")
	var got int
	VxPar(
		func() {
			p := new(int)
			*p = 42
			m.Store(k, p)
		},
		func() {
			if v, ok := m.Load(k); ok {
				got = *(v.(*int))
			}
		},
	)
	VxAssert(got == 0 || got == 42, "published payload is completely initialised when observed")
	VxObserve("got", got)
	VxReach("end")
}
