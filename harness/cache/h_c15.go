//go:build go1.21

package cache

import (
	"time"

	"github.com/fufuok/cache/internal/xsync"
)

// VxH_C15_janitor: what of the janitor can be decided on the symbolic heap.
// (1) a goroutine is started iff the effective cleanup interval is > 0 and its
// ticker gets exactly that interval; (2) one tick - no user call - removes the
// expired entries, keeps the live ones and fires the evicted callback;
// (3) a finalizer is registered on the object handed to the user, the goroutine
// holds no reference to that object, and the finalizer closes the very channel
// the goroutine waits on. Not decidable here (Go runtime): that ticks arrive in
// bounded real time and that the collector runs the finalizer.
func VxH_C15_janitor(variant int) {
	now := xsync.VxI64("now")
	xsync.VxAssume(now >= 1 && now < 1<<62)
	xsync.VxClockSet(now)
	ci := time.Duration(xsync.VxI64("cleanup"))
	var led vxLedger
	cb := func(k string, v interface{}) { led.add(k, v) }
	var c Cache
	eff := ci
	switch variant {
	case 0:
		c = New(WithCleanupInterval(ci), WithEvictedCallback(cb))
	case 1:
		c = NewDefault(NoExpiration, ci, cb)
	case 2:
		c = New(WithEvictedCallback(cb))
		eff = DefaultCleanupInterval
	}
	want := eff > 0
	n := xsync.VxSpawned()
	xsync.VxAssert((n == 1) == want && n <= 1, "a janitor goroutine is started iff the cleanup interval is > 0")
	xsync.VxAssert(xsync.VxFinalizerOn(c), "a finalizer is registered on the object handed to the user")
	w := c.(*xsyncMapWrapper)
	inner := w.xsyncMap
	k1, k2 := xsync.VxStr("k1"), xsync.VxStr("k2")
	xsync.VxAssume(k1 != k2)
	e1 := xsync.VxI64("e1")
	xsync.VxAssume(e1 > 0 && e1 < now) // expired
	vxPut(inner, k1, 1, e1)
	vxPut(inner, k2, 2, 0) // immortal
	xsync.VxReach("constructed")
	if want {
		xsync.VxAssert(!xsync.VxSpawnReaches(0, c), "the janitor goroutine holds no reference to the user's object (it can become unreachable)")
		// one tick, no user call
		xsync.VxRunSpawned(0, func() { inner.DeleteExpired() })
		xsync.VxAssert(xsync.VxTickerNanos() == int64(eff), "the ticker runs at the configured cleanup interval")
		_, _, ok1 := vxPeek(inner, k1)
		_, _, ok2 := vxPeek(inner, k2)
		xsync.VxAssert(!ok1 && ok2, "one janitor pass removes the expired entry and keeps the live one")
		xsync.VxAssert(led.n == 1 && led.has(k1, 1) == 1, "the janitor pass fires the evicted callback for the removed entry")
		xsync.VxObserve("count", c.Count())
	} else {
		_, _, ok1 := vxPeek(inner, k1)
		xsync.VxAssert(ok1 && led.n == 0, "without a janitor nothing is removed until an access or DeleteExpired")
	}
	// the finalizer stops the goroutine: it closes the channel the goroutine selects on
	xsync.VxRunFinalizer(0, func() { close(w.stop) })
	xsync.VxAssert(xsync.VxChanClosed(inner.stop), "the finalizer closes the stop channel of the goroutine's cache")
	xsync.VxReach("end")
}
