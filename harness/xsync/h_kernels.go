//go:build go1.21

package xsync

// Kernel harnesses: top-hash packing and SWAR helpers (engine bring-up and
// sanity of the bit-level encodings).

func VxH_TopHash() {
	h := VxU64("h")
	th := VxU64("th")
	idx := VxChoice("idx", 3)
	VxReach("start")
	n := storeTopHash(h, th, idx)
	VxAssert(topHashMatch(h, n, idx), "stored top hash matches its own hash")
	VxAssert(n&1 == th&1, "lock bit preserved by storeTopHash")
	for j := 0; j < 3; j++ {
		if j != idx {
			VxAssert(n&topHashEntryMasks[j] == th&topHashEntryMasks[j], "other slots' top hashes untouched")
			VxAssert(n&(1<<(j+1)) == th&(1<<(j+1)), "other presence bits untouched")
		}
	}
	e := eraseTopHash(n, idx)
	VxAssert(!topHashMatch(h, e, idx), "erased slot never matches")
	h2 := VxU64("h2")
	if topHashMatch(h2, n, idx) {
		VxAssert(h2>>44 == h>>44, "match implies equal top 20 bits")
	}
}

func VxH_Swar() {
	w := VxU64("w")
	b := VxU8("b")
	VxAssume(b < 0x80)
	VxReach("start")
	m := markZeroBytes(w^broadcast(b)) & metaMask
	for i := 0; i < 5; i++ {
		if uint8(w>>(8*i)) == b {
			VxAssert(m&(0x80<<(8*i)) != 0, "a matching byte is always marked")
		}
	}
	if m != 0 {
		i := firstMarkedByteIndex(m)
		VxAssert(i >= 0 && i < 5, "first marked index within the bucket")
	}
	idx := VxChoice("idx", 5)
	s := setByte(w, b, idx)
	VxAssert(uint8(s>>(8*idx)) == b, "setByte sets the byte")
	for i := 0; i < 8; i++ {
		if i != idx {
			VxAssert(uint8(s>>(8*i)) == uint8(w>>(8*i)), "setByte leaves other bytes")
		}
	}
}
