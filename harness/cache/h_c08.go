//go:build go1.21

package cache

import (
	"time"

	"github.com/fufuok/cache/internal/xsync"
)

// VxH_C08_count: Count() is the number of physically stored entries (live +
// expired not yet cleaned), never below the live ones, equals the live ones
// right after DeleteExpired and is 0 right after Clear - after any one
// operation from an arbitrary two-entry pre-state.
func VxH_C08_count(op int) {
	now := xsync.VxI64("now")
	xsync.VxAssume(now >= 0 && now < 1<<62)
	xsync.VxClockSet(now)
	c := vxNewCache(1, NoExpiration, nil)
	k1, k2 := xsync.VxStr("k1"), xsync.VxStr("k2")
	xsync.VxAssume(k1 != k2)
	has1, has2 := xsync.VxBool("has1"), xsync.VxBool("has2")
	e1, e2 := xsync.VxI64("e1"), xsync.VxI64("e2")
	xsync.VxAssume(e1 >= 0 && e2 >= 0)
	if has1 {
		vxPut(c, k1, 1, e1)
	}
	if has2 {
		vxPut(c, k2, 2, e2)
	}
	k := xsync.VxStr("k")
	d := time.Duration(xsync.VxI64("d"))
	xsync.VxReach("pre-state built")
	switch op {
	case opSet:
		c.Set(k, 3, d)
	case opGet:
		c.Get(k)
	case opGetOrSet:
		c.GetOrSet(k, 3, d)
	case opGetAndRefresh:
		c.GetAndRefresh(k, d)
	case opCompute:
		c.Compute(k, func(interface{}, bool) (interface{}, bool) { return 3, xsync.VxBool("del") }, d)
	case opGetAndDelete:
		c.GetAndDelete(k)
	case opDeleteExpired:
		c.DeleteExpired()
	case opClear:
		c.Clear()
	}
	// physical and live counts over the three keys in play
	phys, live := 0, 0
	kk := [3]string{k1, k2, k}
	for i := 0; i < 3; i++ {
		dup := false
		for j := 0; j < i; j++ {
			if kk[j] == kk[i] {
				dup = true
			}
		}
		if dup {
			continue
		}
		_, e, ok := vxPeek(c, kk[i])
		if ok {
			phys++
			if !(e > 0 && now > e) {
				live++
			}
		}
	}
	xsync.VxObserve("count", c.Count())
	xsync.VxAssert(c.Count() == phys, "Count equals the number of physically stored entries (live + expired-uncleaned)")
	xsync.VxAssert(c.Count() >= live, "Count never under-reports the live entries")
	if op == opDeleteExpired {
		xsync.VxAssert(c.Count() == live, "Count equals the live-entry count right after DeleteExpired")
	}
	if op == opClear {
		xsync.VxAssert(c.Count() == 0, "Count is 0 right after Clear")
	}
}
