package eng

import (
	"bytes"
	"encoding/json"
	"fmt"
	"go/ast"
	"go/parser"
	"go/printer"
	"go/token"
	"go/types"
	"os"
	"os/exec"
	"path/filepath"
	"sort"
	"strings"
	"time"

	"golang.org/x/tools/go/ssa"
)

// ReplayJob is one concrete run of a harness: every symbolic input, hash
// value, seed and schedule decision fixed to the solver's model.
type ReplayJob struct {
	ID      string              `json:"id"`
	Harness string              `json:"harness"`
	Pkg     string              `json:"pkg"`
	Args    []int64             `json:"args"`
	Inputs  map[string][]uint64 `json:"inputs"`
	HashStr map[string]uint64   `json:"hashstr"`
	Hash2   map[string]uint64   `json:"hash2"`
	HashN   map[string]uint64   `json:"hashn"`
	Seeds   []uint64            `json:"seeds"`
	Strings map[string]string   `json:"strings"`
	Sched   [][]int             `json:"sched"`
	Rounds  int                 `json:"rounds"`
	VisAll  bool                `json:"visall"`
	Repeat  int                 `json:"repeat"`
	// expectations (not read by the native side)
	Expect    string      `json:"expect"` // "reach" or the obligation message
	ExpKind   string      `json:"expkind"`
	Predicted []PredObs   `json:"predicted"`
}

type PredObs struct {
	Name string `json:"name"`
	Thr  int    `json:"thr"`
	Val  string `json:"val"`
}

type ReplayOut struct {
	ID             string    `json:"id"`
	Failures       []string  `json:"failures"`
	Reached        []string  `json:"reached"`
	Observed       []PredObs `json:"observed"`
	AssumeViolated bool      `json:"assume_violated"`
	Panic          string    `json:"panic"`
	Deadlock       bool      `json:"deadlock"`
	Diverged       bool      `json:"diverged"`
	Race           bool      `json:"race"`
}

func (x *Exec) strText(id uint64) string {
	if id == 0 {
		return ""
	}
	if s, ok := x.strByID[int(id)]; ok {
		return s
	}
	return fmt.Sprintf("s%d", id)
}

// render gives the canonical text of a value under a model (matches vxRender on the native side).
func (x *Exec) render(m *Model, v Value, t types.Type) string {
	switch vv := v.(type) {
	case *Term:
		val := m.Eval(vv)
		if t != nil && isString(t) {
			return "str:" + x.strText(val)
		}
		if vv.W != 0 && vv.W < 64 && t != nil && isSigned(t) {
			return fmt.Sprint(uint64(sext64(val, vv.W)) & mask(vv.W))
		}
		return fmt.Sprint(val)
	case IfaceV:
		tag := int(m.Eval(vv.Tag))
		if tag == 0 {
			return "nil"
		}
		T := x.TR.Type(tag)
		if pv, ok := vv.Pay[tag]; ok {
			return x.render(m, pv, T)
		}
		return "?"
	}
	return fmt.Sprintf("?%T", v)
}

// BuildReplay turns a model into a concrete replay job.
func (x *Exec) BuildReplay(inst Instance, m *Model, id string) *ReplayJob {
	j := &ReplayJob{ID: id, Harness: inst.Func, Pkg: inst.Pkg, Args: inst.Args, Inputs: map[string][]uint64{},
		HashStr: map[string]uint64{}, Hash2: map[string]uint64{}, HashN: map[string]uint64{}, Strings: map[string]string{},
		Rounds: x.Cfg.Rounds, VisAll: x.Cfg.VisAll}
	if j.Args == nil {
		j.Args = []int64{}
	}
	for _, name := range x.StreamOrd {
		for _, e := range x.Streams[name] {
			if m.Eval(e.G) != 1 {
				continue
			}
			key := name
			if e.Thr >= 0 {
				key = fmt.Sprintf("%s@t%d", name, e.Thr)
			}
			j.Inputs[key] = append(j.Inputs[key], m.Eval(e.T))
		}
	}
	// seeds: pairs of fastrand draws (first of each pair is non-zero by assumption)
	derived := map[string][]uint64{}
	defer func() {
		for k, v := range derived {
			j.Inputs[k] = v
		}
	}()
	for key, vs := range j.Inputs {
		if key == "fastrand" || strings.HasPrefix(key, "fastrand@") {
			// makeSeed: draw until non-zero (high half), then one more draw (low half)
			var seeds []uint64
			for i := 0; i < len(vs); {
				for i < len(vs) && vs[i] == 0 {
					i++
				}
				if i+1 >= len(vs) {
					break
				}
				seeds = append(seeds, vs[i]<<32|vs[i+1])
				i += 2
			}
			derived["makeseed"+strings.TrimPrefix(key, "fastrand")] = seeds
		}
	}
	for id, s := range x.strByID {
		j.Strings[fmt.Sprint(id)] = s
	}
	for name, fd := range x.U.Funs {
		for _, app := range fd.Apps {
			if m.Defined != nil && !m.Defined[app.ID] {
				continue // not constrained by the query: any value will do natively
			}
			hv := m.Eval(app)
			switch {
			case name == "hashstr":
				s := x.strText(m.Eval(app.Args[0]))
				j.HashStr[fmt.Sprintf("%s|%d", s, m.Eval(app.Args[1]))] = hv
			case name == "hash_2":
				j.Hash2[fmt.Sprintf("%d|%d", m.Eval(app.Args[0]), m.Eval(app.Args[1]))] = hv
			case strings.HasPrefix(name, "hash_"):
				var parts []string
				for _, a := range app.Args {
					parts = append(parts, fmt.Sprint(m.Eval(a)))
				}
				j.HashN[strings.Join(parts, "|")] = hv
			}
		}
	}
	if len(x.Threads) > 0 {
		R := x.Cfg.Rounds
		for r := 0; r < R; r++ {
			row := make([]int, len(x.Threads))
			for i, t := range x.Threads {
				if r < len(t.Ns) {
					row[i] = int(m.Eval(t.Ns[r]))
				}
			}
			j.Sched = append(j.Sched, row)
		}
	}
	for _, o := range x.Observes {
		if m.Eval(o.G) != 1 {
			continue
		}
		var T types.Type
		j.Predicted = append(j.Predicted, PredObs{Name: o.Name, Thr: o.Thr, Val: x.renderObs(m, o.V, T)})
	}
	return j
}

func (x *Exec) renderObs(m *Model, v Value, t types.Type) string {
	// VxObserve takes `any`: the argument is an interface value
	if iv, ok := v.(IfaceV); ok {
		return x.render(m, iv, nil)
	}
	return x.render(m, v, t)
}

// ---------- native side ----------

// rewriteClock returns src with time.Now/Until/Since redirected to the virtual clock shims.
func rewriteSelectors(path string, src []byte, repl map[string]string, keepImports []string) ([]byte, bool, error) {
	fset := token.NewFileSet()
	file, err := parser.ParseFile(fset, path, src, parser.ParseComments)
	if err != nil {
		return nil, false, err
	}
	changed := false
	ast.Inspect(file, func(n ast.Node) bool {
		switch e := n.(type) {
		case *ast.CallExpr:
			if sel, ok := e.Fun.(*ast.SelectorExpr); ok {
				if id, ok := sel.X.(*ast.Ident); ok {
					if to, ok := repl[id.Name+"."+sel.Sel.Name]; ok {
						e.Fun = ast.NewIdent(to)
						changed = true
					}
				}
			}
		case *ast.Field:
			// struct field types: sync.Mutex -> vxMutex etc.
			if sel, ok := e.Type.(*ast.SelectorExpr); ok {
				if id, ok := sel.X.(*ast.Ident); ok {
					if to, ok := repl["type:"+id.Name+"."+sel.Sel.Name]; ok {
						e.Type = ast.NewIdent(to)
						changed = true
					}
				}
			}
		}
		return true
	})
	if !changed {
		return src, false, nil
	}
	var buf bytes.Buffer
	if err := printer.Fprint(&buf, fset, file); err != nil {
		return nil, false, err
	}
	// keep imports used: reference each import once
	for _, imp := range file.Imports {
		p := strings.Trim(imp.Path.Value, `"`)
		name := filepath.Base(p)
		if imp.Name != nil {
			name = imp.Name.Name
		}
		if name == "_" || name == "." {
			continue
		}
		switch p {
		case "time":
			fmt.Fprintf(&buf, "\nvar _ = %s.Now\n", name)
		case "sync/atomic":
			fmt.Fprintf(&buf, "\nvar _ = %s.LoadInt64\n", name)
		case "sync":
			fmt.Fprintf(&buf, "\nvar _ %s.Mutex\n", name)
		case "runtime":
			fmt.Fprintf(&buf, "\nvar _ = %s.Gosched\n", name)
		}
	}
	return buf.Bytes(), true, nil
}

var clockRepl = map[string]string{
	"time.Now":   "vxTimeNow",
	"time.Until": "vxTimeUntil",
	"time.Since": "vxTimeSince",
}

var schedReplXsync = map[string]string{
	"atomic.LoadPointer":           "vxLoadPointer",
	"atomic.StorePointer":          "vxStorePointer",
	"atomic.LoadUint64":            "vxLoadUint64",
	"atomic.StoreUint64":           "vxStoreUint64",
	"atomic.LoadInt64":             "vxLoadInt64",
	"atomic.StoreInt64":            "vxStoreInt64",
	"atomic.AddInt64":              "vxAddInt64",
	"atomic.CompareAndSwapInt64":   "vxCASInt64",
	"atomic.CompareAndSwapUint64":  "vxCASUint64",
	"runtime.Gosched":              "vxGosched",
	"sync.NewCond":                 "vxNewCond",
	"type:sync.Mutex":              "vxMutex",
	"type:sync.Cond":               "vxCond",
}

var schedReplCache = map[string]string{
	"type:atomic.Value": "vxAtomicValue",
	"type:sync.Mutex":   "xsync.VxMutex",
}

// NativeOverlay builds the overlay used for native replays: harness files,
// native-only hook files, and rewritten copies of repository files (virtual
// clock, hash/seed hooks, and — when sched is set — scheduling shims).
func NativeOverlay(harnessDir string, sched bool, tmp string) (map[string]string, error) {
	ov := map[string]string{}
	_, real, err := HarnessOverlay(harnessDir)
	if err != nil {
		return nil, err
	}
	n := 0
	put := func(virtual string, content []byte) {
		n++
		p := filepath.Join(tmp, fmt.Sprintf("rw%d_%s", n, filepath.Base(virtual)))
		os.WriteFile(p, content, 0o644)
		ov[virtual] = p
	}
	for v, r := range real {
		base := filepath.Base(r)
		// sym_*.go are symbolic-side-only definitions
		if strings.HasPrefix(base, "sym_") {
			continue
		}
		ov[v] = r
		if sched && base != "rt.go" && base != "sched.go" {
			// harness code sees the same shimmed types as the repository code
			src, err := os.ReadFile(r)
			if err != nil {
				return nil, err
			}
			repl := schedReplXsync
			if strings.Contains(r, "/cache/") {
				repl = schedReplCache
			}
			out, ch, err := rewriteSelectors(r, src, repl, nil)
			if err != nil {
				return nil, fmt.Errorf("rewrite %s: %v", r, err)
			}
			if ch {
				put(v, out)
			}
		}
	}
	for _, sub := range []struct{ dir, dest string }{{"native_xsync", filepath.Join(RepoDir, "internal/xsync")}, {"native_cache", RepoDir}} {
		files, _ := filepath.Glob(filepath.Join(harnessDir, sub.dir, "*.go"))
		for _, f := range files {
			ov[filepath.Join(sub.dest, "zz_vxn_"+filepath.Base(f))] = f
		}
	}
	// package cache: clock (+ atomic.Value shim)
	files, _ := filepath.Glob(filepath.Join(RepoDir, "*.go"))
	for _, f := range files {
		if strings.HasSuffix(f, "_test.go") {
			continue
		}
		src, err := os.ReadFile(f)
		if err != nil {
			return nil, err
		}
		repl := map[string]string{}
		for k, v := range clockRepl {
			repl[k] = v
		}
		if sched {
			for k, v := range schedReplCache {
				repl[k] = v
			}
		}
		out, ch, err := rewriteSelectors(f, src, repl, nil)
		if err != nil {
			return nil, fmt.Errorf("rewrite %s: %v", f, err)
		}
		if ch {
			put(f, out)
		}
	}
	// package xsync: hash and seed hooks (textual rename), scheduling shims
	files, _ = filepath.Glob(filepath.Join(RepoDir, "internal/xsync", "*.go"))
	hooked := 0
	for _, f := range files {
		if strings.HasSuffix(f, "_test.go") {
			continue
		}
		src, err := os.ReadFile(f)
		if err != nil {
			return nil, err
		}
		out := src
		ch := false
		if sched {
			o2, c2, err := rewriteSelectors(f, out, schedReplXsync, nil)
			if err != nil {
				return nil, fmt.Errorf("rewrite %s: %v", f, err)
			}
			out, ch = o2, c2
		}
		s := string(out)
		for _, fn := range []string{"hashString", "makeSeed"} {
			if strings.Contains(s, "func "+fn+"(") {
				s = strings.Replace(s, "func "+fn+"(", "func "+fn+"_orig(", 1)
				hooked++
				ch = true
			}
		}
		if ch {
			put(f, []byte(s))
		}
	}
	if hooked != 2 {
		return nil, fmt.Errorf("native overlay: expected to hook hashString and makeSeed, hooked %d", hooked)
	}
	return ov, nil
}

// genDispatch generates the replay test file for a package: a dispatcher from
// harness name to call.
func genDispatch(L *Loaded, pkgName string) string {
	var pkg *ssa.Package
	imp := ""
	q := ""
	if pkgName == "xsync" {
		pkg = L.Xsync
	} else {
		pkg = L.Cache
		imp = "\t\"" + xsyncPath + "\"\n"
		q = "xsync."
	}
	var names []string
	for name, m := range pkg.Members {
		if fn, ok := m.(*ssa.Function); ok && strings.HasPrefix(name, "VxH_") && fn.Signature.TypeParams() == nil {
			names = append(names, name)
		}
	}
	sort.Strings(names)
	var sb strings.Builder
	fmt.Fprintf(&sb, "package %s\n\nimport (\n\t\"os\"\n\t\"testing\"\n%s)\n\n", pkg.Pkg.Name(), imp)
	sb.WriteString("var vxDispatch = map[string]func(a []int64){\n")
	for _, n := range names {
		fn := pkg.Func(n)
		var args []string
		ok := true
		for i, p := range fn.Params {
			b, isB := p.Type().Underlying().(*types.Basic)
			if !isB {
				ok = false
				break
			}
			if b.Kind() == types.Bool {
				args = append(args, fmt.Sprintf("a[%d] != 0", i))
			} else {
				args = append(args, fmt.Sprintf("%s(a[%d])", types.TypeString(p.Type(), func(*types.Package) string { return "" }), i))
			}
		}
		if !ok {
			continue
		}
		fmt.Fprintf(&sb, "\t%q: func(a []int64) { %s(%s) },\n", n, n, strings.Join(args, ", "))
	}
	sb.WriteString("}\n\n")
	fmt.Fprintf(&sb, "func TestVxReplay(t *testing.T) {\n\t%sVxRunReplays(os.Getenv(\"VX_JOBS\"), os.Getenv(\"VX_OUT\"), vxDispatch)\n}\n", q)
	return sb.String()
}

// RunNative executes the jobs natively (one `go test` per package) and returns outputs by job id.
func RunNative(L *Loaded, harnessDir string, jobs []*ReplayJob, race bool) (map[string]*ReplayOut, string, error) {
	outs := map[string]*ReplayOut{}
	if len(jobs) == 0 {
		return outs, "", nil
	}
	tmp, err := os.MkdirTemp("", "gsx-replay-")
	if err != nil {
		return nil, "", err
	}
	defer os.RemoveAll(tmp)
	sched := false
	for _, j := range jobs {
		if len(j.Sched) > 0 {
			sched = true
		}
	}
	ov, err := NativeOverlay(harnessDir, sched, tmp)
	if err != nil {
		return nil, "", err
	}
	var log strings.Builder
	byPkg := map[string][]*ReplayJob{}
	for _, j := range jobs {
		byPkg[j.Pkg] = append(byPkg[j.Pkg], j)
	}
	for pkgName, js := range byPkg {
		dir := RepoDir
		if pkgName == "xsync" {
			dir = filepath.Join(RepoDir, "internal/xsync")
		}
		tf := filepath.Join(tmp, "dispatch_"+pkgName+"_test.go")
		os.WriteFile(tf, []byte(genDispatch(L, pkgName)), 0o644)
		ov2 := map[string]string{}
		for k, v := range ov {
			ov2[k] = v
		}
		ov2[filepath.Join(dir, "zz_vx_replay_test.go")] = tf
		// hide the repository's own tests of that package from this build: not needed (-run selects ours)
		ovJSON, _ := json.Marshal(map[string]interface{}{"Replace": ov2})
		ovFile := filepath.Join(tmp, "overlay_"+pkgName+".json")
		os.WriteFile(ovFile, ovJSON, 0o644)
		jobsFile := filepath.Join(tmp, "jobs_"+pkgName+".json")
		jb, _ := json.Marshal(js)
		os.WriteFile(jobsFile, jb, 0o644)
		outFile := filepath.Join(tmp, "out_"+pkgName+".json")
		args := []string{"test", "-vet=off", "-count=1", "-run", "^TestVxReplay$", "-overlay", ovFile, "-timeout", "300s"}
		if race {
			args = append(args, "-race")
		}
		args = append(args, ".")
		cmd := exec.Command("go", args...)
		cmd.Dir = dir
		cmd.Env = append(os.Environ(), "GOFLAGS=-mod=mod", "GOPROXY=off", "GOSUMDB=off", "GOTOOLCHAIN=local",
			"VX_JOBS="+jobsFile, "VX_OUT="+outFile)
		t0 := time.Now()
		ob, err := cmd.CombinedOutput()
		fmt.Fprintf(&log, "$ (cd %s && go %s)  [%v]\n%s\n", dir, strings.Join(args, " "), time.Since(t0).Round(time.Millisecond), ob)
		sawRace := race && strings.Contains(string(ob), "DATA RACE")
		data, rerr := os.ReadFile(outFile)
		if rerr != nil {
			return outs, log.String(), fmt.Errorf("native replay for package %s produced no output (go test: %v)", pkgName, err)
		}
		var ros []*ReplayOut
		if jerr := json.Unmarshal(data, &ros); jerr != nil {
			return outs, log.String(), jerr
		}
		for _, ro := range ros {
			if sawRace {
				ro.Race = true
			}
			outs[ro.ID] = ro
		}
	}
	return outs, log.String(), nil
}

// CompareObserved checks predicted observations against the native run.
func CompareObserved(j *ReplayJob, o *ReplayOut) (agree bool, detail string) {
	key := func(p PredObs) string { return fmt.Sprintf("%d|%s", p.Thr, p.Name) }
	pm := map[string][]string{}
	for _, p := range j.Predicted {
		pm[key(p)] = append(pm[key(p)], p.Val)
	}
	om := map[string][]string{}
	for _, p := range o.Observed {
		om[key(p)] = append(om[key(p)], p.Val)
	}
	for k, pv := range pm {
		ov := om[k]
		if len(ov) != len(pv) {
			return false, fmt.Sprintf("observation %s: predicted %v, native %v", k, pv, ov)
		}
		for i := range pv {
			if pv[i] != ov[i] {
				return false, fmt.Sprintf("observation %s[%d]: predicted %s, native %s", k, i, pv[i], ov[i])
			}
		}
	}
	for k, ov := range om {
		if _, ok := pm[k]; !ok {
			return false, fmt.Sprintf("observation %s: native %v not predicted", k, ov)
		}
	}
	return true, ""
}


// ShowValue renders a value for debugging.
func (x *Exec) ShowValue(v Value) string {
	switch vv := v.(type) {
	case *Term:
		return vv.Show(3)
	case IfaceV:
		s := "iface{tag=" + vv.Tag.Show(2)
		for id, p := range vv.Pay {
			s += fmt.Sprintf(" %d:%s", id, x.ShowValue(p))
		}
		return s + "}"
	}
	return fmt.Sprintf("%T", v)
}
