package eng

import (
	"fmt"
	"go/types"
	"math"
	"strings"

	"golang.org/x/tools/go/ssa"
)

const xsyncPath = "github.com/fufuok/cache/internal/xsync"

func (x *Exec) call(f *frame, ins ssa.Instruction, c *ssa.CallCommon, g *Term) Value {
	args := make([]Value, len(c.Args))
	for i, a := range c.Args {
		args[i] = x.operand(f, a)
	}
	var fnv Value
	if c.IsInvoke() {
		fnv = x.operand(f, c.Value)
	} else if _, isB := c.Value.(*ssa.Builtin); !isB {
		if _, isF := c.Value.(*ssa.Function); !isF {
			fnv = x.operand(f, c.Value)
		}
	}
	return x.callCommon(f, ins, c, fnv, args, g)
}

func (x *Exec) callCommon(f *frame, ins ssa.Instruction, c *ssa.CallCommon, fnv Value, args []Value, g *Term) Value {
	u := x.U
	path := f.key(x, ins)
	if c.IsInvoke() {
		if ov, ok := fnv.(OpaqueV); ok && ov.What == "rtype" {
			return x.rtypeMethod(ov, c.Method.Name(), ins)
		}
		iv := fnv.(IfaceV)
		x.oblige("nil", u.And(g, u.Eq(iv.Tag, u.Const(16, 0))), "method call on nil interface: "+c.Method.Name(), ins.Pos())
		var res Value
		first := true
		ids := sortedKeys(iv.Pay)
		for _, id := range ids {
			T := x.TR.Type(id)
			is := u.Eq(iv.Tag, u.Const(16, uint64(id)))
			gg := u.And(g, is)
			if gg.IsFalse() && x.thr == nil {
				continue
			}
			sel := x.Prog.MethodSets.MethodSet(T).Lookup(c.Method.Pkg(), c.Method.Name())
			if sel == nil {
				continue
			}
			m := x.Prog.MethodValue(sel)
			if m == nil {
				x.fail("no method value for %v.%s", T, c.Method.Name())
			}
			a2 := append([]Value{iv.Pay[id]}, args...)
			r := x.callFn(f, ins, m, a2, nil, gg, fmt.Sprintf("%s:i%d", path, id))
			if first {
				res = r
				first = false
			} else if r != nil {
				res = x.Merge(is, r, res)
			}
		}
		if first {
			return x.zeroResults(c.Signature())
		}
		return res
	}
	switch cv := c.Value.(type) {
	case *ssa.Builtin:
		return x.builtin(f, ins, cv, c, args, g)
	case *ssa.Function:
		return x.callFn(f, ins, cv, args, nil, g, path)
	}
	fv, ok := fnv.(FuncV)
	if !ok {
		x.fail("call of non-function value %T at %s", fnv, x.pos(ins.Pos()))
	}
	nn := u.False
	for _, al := range fv.Alts {
		nn = u.Or(nn, al.G)
	}
	x.oblige("nil", u.And(g, u.Not(nn)), "call of nil function", ins.Pos())
	var res Value
	first := true
	for i, al := range fv.Alts {
		gg := u.And(g, al.G)
		if gg.IsFalse() && x.thr == nil {
			continue
		}
		var r Value
		if al.Stub != "" {
			r = x.stubFunc(f, ins, al, args, gg)
		} else {
			r = x.callFn(f, ins, al.Fn, args, al.Binds, gg, fmt.Sprintf("%s:f%d", path, i))
		}
		if first {
			res = r
			first = false
		} else if r != nil {
			res = x.Merge(al.G, r, res)
		}
	}
	if first {
		return x.zeroResults(c.Signature())
	}
	return res
}

func sortedKeys(m map[int]Value) []int {
	ks := make([]int, 0, len(m))
	for k := range m {
		ks = append(ks, k)
	}
	for i := 1; i < len(ks); i++ {
		for j := i; j > 0 && ks[j] < ks[j-1]; j-- {
			ks[j], ks[j-1] = ks[j-1], ks[j]
		}
	}
	return ks
}

func baseName(fn *ssa.Function) string {
	n := fn.String()
	if o := fn.Origin(); o != nil {
		n = o.String()
	}
	// strip type parameter lists: (*pkg.MapOf[K,V]).resize -> (*pkg.MapOf).resize
	for {
		i := strings.Index(n, "[")
		if i < 0 {
			break
		}
		depth, j := 0, i
		for ; j < len(n); j++ {
			if n[j] == '[' {
				depth++
			} else if n[j] == ']' {
				depth--
				if depth == 0 {
					break
				}
			}
		}
		if j >= len(n) {
			break
		}
		n = n[:i] + n[j+1:]
	}
	return n
}

// pruneCalls: void, expensive callees that are skipped when the solver shows
// that their call can have no effect (guard ∧ window infeasible).
var pruneCalls = map[string]bool{
	"(*" + xsyncPath + ".Map).resize":          true,
	"(*" + xsyncPath + ".MapOf).resize":        true,
	"(*" + xsyncPath + ".Map).waitForResize":   true,
	"(*" + xsyncPath + ".MapOf).waitForResize": true,
}

func (x *Exec) callFn(f *frame, ins ssa.Instruction, fn *ssa.Function, args, binds []Value, g *Term, path string) Value {
	name := baseName(fn)
	if x.Cfg.SmallTables > 0 && (name == xsyncPath+".newMapTable" || name == xsyncPath+".newMapOfTable") {
		// bound: the production minimum of 32 root buckets is replaced by a
		// small table (the code only ever uses len(table.buckets))
		if t, ok := args[0].(*Term); ok && t.IsConst() && t.Val == 32 {
			args = []Value{x.U.Const(t.W, uint64(x.Cfg.SmallTables))}
		}
	}
	if len(x.Cfg.NoResizeCall) > 0 && (name == "(*"+xsyncPath+".Map).resize" || name == "(*"+xsyncPath+".MapOf).resize") {
		// excluded at the call: the execution never asks for this kind of resize
		if h, ok := args[2].(*Term); ok && h.IsConst() && x.Cfg.NoResizeCall[int(h.Val)] && !strings.Contains(baseName(f.fn), ".VxH_") {
			x.Assume(g, x.U.False, fmt.Sprintf("this instance excludes executions that request a resize with hint %d (0=grow,1=shrink,2=clear)", h.Val))
			return nil
		}
	}
	if len(x.Cfg.NoResize) > 0 && (name == xsyncPath+".newMapTable" || name == xsyncPath+".newMapOfTable") {
		// bound of this instance: executions in which resize actually builds a
		// new table for an excluded hint are outside it (the cheap early-return
		// paths of resize - e.g. a shrink request on a table at its minimum - stay inside)
		caller := baseName(f.fn)
		if caller == "(*"+xsyncPath+".Map).resize" || caller == "(*"+xsyncPath+".MapOf).resize" {
			if len(f.fn.Params) == 3 {
				if h, ok := f.env[f.fn.Params[2]].(*Term); ok && h.IsConst() && x.Cfg.NoResize[int(h.Val)] {
					x.Assume(g, x.U.False, fmt.Sprintf("this instance excludes executions that rebuild the table with resize hint %d (0=grow,1=shrink,2=clear)", h.Val))
					return x.zero(fn.Signature.Results().At(0).Type())
				}
			}
		}
	}
	if pruneCalls[name] && fn.Signature.Results().Len() == 0 {
		// path guard only: in a thread the callee's visible operations must be
		// counted in every round, whether or not the call starts inside the window
		if !x.feasible(g) {
			x.PrunedCalls++
			return nil
		}
	}
	if r, ok := x.stub(f, ins, fn, name, args, g); ok {
		return r
	}
	return x.CallFunction(fn, args, binds, g, path)
}

func (x *Exec) strArg(v Value) string {
	t, ok := v.(*Term)
	if !ok || !t.IsConst() {
		x.fail("intrinsic needs a constant string argument")
	}
	s, ok := x.strByID[int(t.Val)]
	if !ok {
		x.fail("unknown string id %d", t.Val)
	}
	return s
}

// Input creates (or re-uses, in thread mode) a named symbolic input.
func (x *Exec) Input(f *frame, ins ssa.Instruction, name string, w int, g *Term) *Term {
	if x.Concrete != nil {
		// debugging mode: inputs fixed to a replay job's values
		vs := x.Concrete.Inputs[name]
		i := x.concPos[name]
		x.concPos[name] = i + 1
		v := uint64(0)
		if i < len(vs) {
			v = vs[i]
		}
		t := x.U.Const(w, v)
		x.addStream(name, StreamEnt{G: g, T: t, Thr: -1})
		return t
	}
	thr := -1
	if x.thr != nil && f != nil {
		thr = x.thr.ID
		k := name + "@" + f.key(x, ins)
		if e, ok := x.thr.Inputs[k]; ok {
			x.Streams[name][e.idx].G = g
			return e.t
		}
		v := x.U.Var(fmt.Sprintf("%s#%d", name, len(x.Streams[name])), w)
		x.thr.Inputs[k] = thrInput{v, len(x.Streams[name])}
		x.addStream(name, StreamEnt{G: g, T: v, Thr: thr})
		return v
	}
	v := x.U.Var(fmt.Sprintf("%s#%d", name, len(x.Streams[name])), w)
	if x.Pin != nil {
		vs := x.Pin.Inputs[name]
		i := x.concPos[name]
		x.concPos[name] = i + 1
		if i < len(vs) {
			x.Assumes = append(x.Assumes, x.U.Eq(v, x.U.Const(w, vs[i])))
			x.pinned[v] = vs[i]
		}
	}
	x.addStream(name, StreamEnt{G: g, T: v, Thr: thr})
	return v
}

func (x *Exec) addStream(name string, e StreamEnt) {
	if _, ok := x.Streams[name]; !ok {
		x.StreamOrd = append(x.StreamOrd, name)
	}
	x.Streams[name] = append(x.Streams[name], e)
}

func (x *Exec) toBV64(v Value) *Term {
	t := v.(*Term)
	if t.W == 0 {
		return x.U.Ite(t, x.U.Const(64, 1), x.U.Const(64, 0))
	}
	if t.W < 64 {
		return x.U.Zext(t, 64)
	}
	return t
}

// hashLeaves flattens a key value to scalar terms usable as UF arguments.
func (x *Exec) hashLeaves(t types.Type, v Value, out []*Term) []*Term {
	switch vv := v.(type) {
	case *Term:
		return append(out, x.toBV64(vv))
	case AggV:
		switch ut := t.Underlying().(type) {
		case *types.Struct:
			for i := range vv.Elems {
				out = x.hashLeaves(ut.Field(i).Type(), vv.Elems[i], out)
			}
		case *types.Array:
			for i := range vv.Elems {
				out = x.hashLeaves(ut.Elem(), vv.Elems[i], out)
			}
		}
		return out
	case PtrV:
		// address as a term
		var r *Term = x.U.Const(64, 0)
		for i := len(vv.Alts) - 1; i >= 0; i-- {
			r = x.U.Ite(vv.Alts[i].G, x.U.Const(64, uint64(vv.Alts[i].Addr)), r)
		}
		return append(out, r)
	}
	x.fail("hash of unsupported key value %T", v)
	return nil
}

func (x *Exec) stubFunc(f *frame, ins ssa.Instruction, al FAlt, args []Value, g *Term) Value {
	switch {
	case strings.HasPrefix(al.Stub, "hasher:"):
		// default hasher for key type K: uninterpreted function of (key leaves, seed)
		kt := al.Binds[0].(typeBox).T
		ls := x.hashLeaves(kt, args[0], nil)
		ls = append(ls, args[1].(*Term))
		name := fmt.Sprintf("hash_%d", len(ls))
		return x.U.App(name, 64, ls...)
	}
	x.fail("unknown stub function %s", al.Stub)
	return nil
}

type typeBox struct{ T types.Type }

func (x *Exec) builtin(f *frame, ins ssa.Instruction, b *ssa.Builtin, c *ssa.CallCommon, args []Value, g *Term) Value {
	u := x.U
	switch b.Name() {
	case "len":
		switch v := args[0].(type) {
		case SliceV:
			return v.Len
		case MapV:
			return x.mapLen(v)
		case *Term: // string
			if v.IsConst() {
				if s, ok := x.strByID[int(v.Val)]; ok {
					return u.Const(64, uint64(len(s)))
				}
			}
			l := u.App("strlen", 64, v)
			x.Assumes = append(x.Assumes, u.Eq(u.App("strlen", 64, u.Const(StrW, 0)), u.Const(64, 0)))
			return l
		case AggV:
			return u.Const(64, uint64(len(v.Elems)))
		}
	case "cap":
		if v, ok := args[0].(SliceV); ok {
			return v.Cap
		}
	case "append":
		return x.appendOp(f, ins, c, args, g)
	case "delete":
		x.mapDelete(args[0].(MapV), args[1], g)
		return nil
	case "print", "println":
		return nil
	case "Sizeof":
		return u.Const(64, 8)
	case "close":
		if ch, ok := args[0].(OpaqueV); ok && ch.What == "chan" {
			old := x.chanClosed[ch.ID]
			if old == nil {
				old = u.False
			}
			x.oblige("panic", u.And(g, old), "close of closed channel", ins.Pos())
			x.chanClosed[ch.ID] = u.Or(old, x.act(g))
		}
		return nil
	}
	x.fail("unsupported builtin %s(%T) at %s", b.Name(), args[0], x.pos(ins.Pos()))
	return nil
}

func (x *Exec) appendOp(f *frame, ins ssa.Instruction, c *ssa.CallCommon, args []Value, g *Term) Value {
	u := x.U
	s := args[0].(SliceV)
	src := args[1].(SliceV)
	et := c.Args[0].Type().Underlying().(*types.Slice).Elem()
	stride := x.cellsOf(et)
	if !src.Len.IsConst() {
		x.fail("append of a slice with symbolic length at %s", x.pos(ins.Pos()))
	}
	n2 := int(src.Len.Val)
	if n2 == 0 {
		return s
	}
	elems := make([]Value, n2)
	for j := 0; j < n2; j++ {
		elems[j] = x.loadRaw(x.elemPtr(src.Base, j, stride), et)
	}
	newLen := u.BV(OAdd, s.Len, u.Const(64, uint64(n2)))
	eg := x.act(g)
	inPlace := s.Cap.IsConst() && s.MaxLen+n2 <= int(s.Cap.Val) && len(s.Base.Alts) > 0
	var dst SliceV
	if inPlace {
		dst = SliceV{Base: s.Base, Len: newLen, Cap: s.Cap, Stride: stride, MaxLen: s.MaxLen + n2, MaxCap: s.MaxCap}
	} else {
		ncap := s.MaxLen + n2
		var base int
		if x.thr != nil {
			k := f.key(x, ins)
			if a, ok := x.thr.Allocs[k]; ok {
				base = a
			} else {
				base = x.allocArray(et, ncap, "append")
				x.thr.Allocs[k] = base
			}
		} else {
			base = x.allocArray(et, ncap, "append")
		}
		nb := PtrV{Alts: []PAlt{{u.True, base}}}
		for j := 0; j < s.MaxLen; j++ {
			ov := x.loadRaw(x.elemPtr(s.Base, j, stride), et)
			x.storeRaw(x.elemPtr(nb, j, stride), et, ov, eg)
		}
		dst = SliceV{Base: nb, Len: newLen, Cap: u.Const(64, uint64(ncap)), Stride: stride, MaxLen: s.MaxLen + n2, MaxCap: ncap}
	}
	for _, cand := range x.idxCandidates(s.Len, s.MaxLen+1) {
		cg := u.And(eg, cand.G)
		if cg.IsFalse() {
			continue
		}
		for j := 0; j < n2; j++ {
			x.storeRaw(x.elemPtr(dst.Base, cand.Addr+j, stride), et, elems[j], cg)
		}
	}
	return dst
}

// structFieldIndex finds a field by name.
func structFieldIndex(st *types.Struct, name string) int {
	for i := 0; i < st.NumFields(); i++ {
		if st.Field(i).Name() == name {
			return i
		}
	}
	return -1
}

func (x *Exec) condCells(p PtrV) (lPtr PtrV, genPtr PtrV) {
	// sync.Cond{noCopy, L Locker, notify notifyList{wait uint32,...}, checker}
	condT := x.Prog.ImportedPackage("sync").Type("Cond").Type()
	st := condT.Underlying().(*types.Struct)
	li := structFieldIndex(st, "L")
	ni := structFieldIndex(st, "notify")
	return x.ptrOffset(p, x.fieldOffset(st, li)), x.ptrOffset(p, x.fieldOffset(st, ni))
}

func (x *Exec) readClock(g *Term) *Term {
	if x.clockFree {
		nv := x.Input(nil, nil, "clock", 64, g)
		x.Assume(g, x.U.Cmp(OSle, x.clock, nv), "clock is non-decreasing")
		x.Assume(g, x.U.Cmp(OSlt, nv, x.U.Const(64, 1<<62)), "clock < 2^62")
		x.clock = x.U.Ite(x.act(g), nv, x.clock)
		return nv
	}
	return x.clock
}

func (x *Exec) mkTime(ns *Term) Value {
	return AggV{Elems: []Value{x.U.Const(64, 1), ns, PtrV{}}}
}

// stub intercepts environment functions. Returns ok=false to inline the body.
func (x *Exec) stub(f *frame, ins ssa.Instruction, fn *ssa.Function, name string, args []Value, g *Term) (Value, bool) {
	u := x.U
	pos := ins.Pos()
	if strings.HasPrefix(name, xsyncPath+".Vx") {
		if r, ok := x.intrinsic(f, ins, fn, name[len(xsyncPath)+1:], args, g); ok {
			return r, true
		}
	}
	if fn.Name() == "init" && fn.Pkg != nil && fn.Signature.Recv() == nil {
		if !strings.HasPrefix(fn.Pkg.Pkg.Path(), CachePath) {
			return nil, true
		}
		if x.initDone[fn.Pkg] && f.fn.Name() == "init" {
			return nil, true
		}
	}
	switch name {
	// ----- hashing / randomness -----
	case xsyncPath + ".hashString":
		s, seed := args[0].(*Term), args[1].(*Term)
		h := u.App("hashstr", 64, s, seed)
		return u.Ite(u.Eq(s, u.Const(StrW, 0)), seed, h), true
	case xsyncPath + ".runtime_fastrand":
		return x.Input(f, ins, "fastrand", 32, g), true
	case "reflect.TypeOf":
		iv, ok := args[0].(IfaceV)
		if !ok || !iv.Tag.IsConst() {
			x.fail("reflect.TypeOf of a value whose dynamic type is not static at %s", x.pos(pos))
		}
		return OpaqueV{What: "rtype", ID: int(iv.Tag.Val)}, true
	case xsyncPath + ".runtime_typehash":
		return x.typehash(f, ins, args, g), true
	case xsyncPath + ".runtime_memhash":
		return x.memhash(f, ins, args, g), true
	case xsyncPath + ".defaultHasher":
		if x.Cfg.RealHasher {
			return nil, false
		}
		targs := fn.TypeArgs()
		if len(targs) != 1 {
			x.fail("defaultHasher without type argument")
		}
		return FuncV{Alts: []FAlt{{G: u.True, Stub: "hasher:" + targs[0].String(), Binds: []Value{typeBox{targs[0]}}}}}, true
	case xsyncPath + ".parallelism":
		return u.Const(32, 16), true
	case "math.Copysign":
		a, b := args[0].(FloatV), args[1].(FloatV)
		r := FloatV{}
		for _, p := range a.Alts {
			for _, q := range b.Alts {
				gg := u.And(p.G, q.G)
				if !gg.IsFalse() {
					r.Alts = append(r.Alts, FlAlt{gg, math.Copysign(p.F, q.F)})
				}
			}
		}
		return r, true
	case "math/bits.TrailingZeros64":
		return u.Ctz(args[0].(*Term)), true
	// ----- atomics -----
	case "sync/atomic.LoadPointer", "sync/atomic.LoadUint64", "sync/atomic.LoadInt64", "sync/atomic.LoadUint32", "sync/atomic.LoadInt32", "sync/atomic.LoadUintptr":
		x.beginVis()
		p := asPtr(args[0])
		et := fn.Signature.Results().At(0).Type()
		x.nilCheck(p, g, name, pos)
		x.raceAccess(p, 1, g, false, true, pos)
		v := x.persist(f, ins, g, x.loadRaw(p, et))
		x.visible(g, name)
		return v, true
	case "sync/atomic.StorePointer", "sync/atomic.StoreUint64", "sync/atomic.StoreInt64", "sync/atomic.StoreUint32", "sync/atomic.StoreInt32", "sync/atomic.StoreUintptr":
		x.beginVis()
		p := asPtr(args[0])
		et := fn.Signature.Params().At(1).Type()
		x.nilCheck(p, g, name, pos)
		x.raceAccess(p, 1, g, true, true, pos)
		x.storeRaw(p, et, args[1], x.act(g))
		x.visible(g, name)
		return nil, true
	case "sync/atomic.AddInt64", "sync/atomic.AddUint64", "sync/atomic.AddInt32", "sync/atomic.AddUint32":
		x.beginVis()
		p := asPtr(args[0])
		et := fn.Signature.Results().At(0).Type()
		x.nilCheck(p, g, name, pos)
		x.raceAccess(p, 1, g, true, true, pos)
		old := x.loadRaw(p, et).(*Term)
		nv := u.BV(OAdd, old, args[1].(*Term))
		x.storeRaw(p, et, nv, x.act(g))
		r := x.persist(f, ins, g, nv)
		x.visible(g, name)
		return r, true
	case "sync/atomic.CompareAndSwapInt64", "sync/atomic.CompareAndSwapUint64", "sync/atomic.CompareAndSwapInt32", "sync/atomic.CompareAndSwapUint32", "sync/atomic.CompareAndSwapPointer":
		x.beginVis()
		p := asPtr(args[0])
		et := fn.Signature.Params().At(1).Type()
		x.nilCheck(p, g, name, pos)
		x.raceAccess(p, 1, g, true, true, pos)
		cur := x.loadRaw(p, et)
		eq := x.valueEq(et, cur, args[1])
		x.storeRaw(p, et, args[2], u.And(x.act(g), eq))
		r := x.persist(f, ins, g, eq)
		x.visible(g, name)
		return r, true
	case "(*sync/atomic.Value).Load":
		x.beginVis()
		p := asPtr(args[0])
		x.nilCheck(p, g, name, pos)
		x.raceAccess(p, 1, g, false, true, pos)
		v := x.persist(f, ins, g, x.loadRaw(p, types.NewInterfaceType(nil, nil)))
		x.visible(g, name)
		return v, true
	case "(*sync/atomic.Value).Store":
		x.beginVis()
		p := asPtr(args[0])
		x.nilCheck(p, g, name, pos)
		x.raceAccess(p, 1, g, true, true, pos)
		iv := args[1].(IfaceV)
		x.oblige("panic", u.And(g, u.Eq(iv.Tag, u.Const(16, 0))), "sync/atomic: store of nil value into Value", pos)
		x.storeRaw(p, types.NewInterfaceType(nil, nil), iv, x.act(g))
		x.visible(g, name)
		return nil, true
	// ----- locks -----
	case "(*sync.Mutex).Lock":
		x.beginVis()
		p := asPtr(args[0])
		x.nilCheck(p, g, name, pos)
		x.raceAccess(p, 1, g, true, true, pos)
		st := x.loadRaw(p, types.Typ[types.Int32]).(*Term)
		free := u.Eq(st, u.Const(32, 0))
		x.blocking(g, free, func() *Term {
			return u.Eq(x.loadRaw(p, types.Typ[types.Int32]).(*Term), u.Const(32, 0))
		}, "Mutex.Lock", pos)
		x.storeRaw(p, types.Typ[types.Int32], u.Const(32, 1), x.act(g))
		x.visible(g, name)
		return nil, true
	case "(*sync.Mutex).Unlock":
		x.beginVis()
		p := asPtr(args[0])
		x.nilCheck(p, g, name, pos)
		x.raceAccess(p, 1, g, true, true, pos)
		st := x.loadRaw(p, types.Typ[types.Int32]).(*Term)
		x.oblige("unlock", u.And(g, u.Eq(st, u.Const(32, 0))), "sync: unlock of unlocked mutex", pos)
		x.storeRaw(p, types.Typ[types.Int32], u.Const(32, 0), x.act(g))
		x.visible(g, name)
		return nil, true
	case "(*sync.Mutex).TryLock":
		x.beginVis()
		p := asPtr(args[0])
		st := x.loadRaw(p, types.Typ[types.Int32]).(*Term)
		free := u.Eq(st, u.Const(32, 0))
		x.storeRaw(p, types.Typ[types.Int32], u.Const(32, 1), u.And(x.act(g), free))
		r := x.persist(f, ins, g, free)
		x.visible(g, name)
		return r, true
	case "sync.NewCond":
		condT := x.Prog.ImportedPackage("sync").Type("Cond").Type()
		addr := x.allocAt(f, ins, condT, "sync.Cond")
		p := PtrV{Alts: []PAlt{{u.True, addr}}}
		lp, _ := x.condCells(p)
		x.storeRaw(lp, types.NewInterfaceType(nil, nil), args[0], x.act(g))
		return p, true
	case "(*sync.Cond).Broadcast", "(*sync.Cond).Signal":
		x.beginVis()
		p := asPtr(args[0])
		_, gp := x.condCells(p)
		x.raceAccess(gp, 1, g, true, true, pos)
		old := x.loadRaw(gp, types.Typ[types.Uint32]).(*Term)
		x.storeRaw(gp, types.Typ[types.Uint32], u.BV(OAdd, old, u.Const(32, 1)), x.act(g))
		x.visible(g, name)
		return nil, true
	case "(*sync.Cond).Wait":
		x.condWait(f, ins, asPtr(args[0]), g)
		return nil, true
	case "runtime.Gosched":
		x.beginVis()
		x.visible(g, name)
		return nil, true
	case "runtime.SetFinalizer":
		x.Finalizers = append(x.Finalizers, Spawn{G: g, Fn: args[1], Args: []Value{args[0]}, Pos: x.pos(pos)})
		return nil, true
	case "runtime.GOMAXPROCS", "runtime.NumCPU":
		return u.Const(64, 16), true
	// ----- time -----
	case "time.Now":
		return x.mkTime(x.readClock(g)), true
	case "(time.Time).UnixNano":
		return args[0].(AggV).Elems[1], true
	case "(time.Time).Add":
		t := args[0].(AggV)
		ns := t.Elems[1].(*Term)
		d := args[1].(*Term)
		sum := u.BV(OAdd, ns, d)
		// no signed overflow: instants stay inside the int64 UnixNano range
		ovf := u.Or(
			u.And(u.And(u.Cmp(OSle, u.Const(64, 0), ns), u.Cmp(OSle, u.Const(64, 0), d)), u.Cmp(OSlt, sum, u.Const(64, 0))),
			u.And(u.And(u.Cmp(OSlt, ns, u.Const(64, 0)), u.Cmp(OSlt, d, u.Const(64, 0))), u.Cmp(OSle, u.Const(64, 0), sum)))
		x.Assume(g, u.Not(ovf), "time.Time.Add does not leave the int64 UnixNano range")
		return AggV{Elems: []Value{t.Elems[0], sum, t.Elems[2]}}, true
	case "time.Unix":
		sec, nsec := args[0].(*Term), args[1].(*Term)
		if !sec.IsConst() || sec.Val != 0 {
			x.fail("time.Unix with non-zero seconds not modelled")
		}
		return x.mkTime(nsec), true
	case "time.Until":
		t := args[0].(AggV)
		return u.BV(OSub, t.Elems[1].(*Term), x.readClock(g)), true
	case "time.Since":
		t := args[0].(AggV)
		return u.BV(OSub, x.readClock(g), t.Elems[1].(*Term)), true
	case "(time.Time).IsZero":
		t := args[0].(AggV)
		return u.Eq(t.Elems[0].(*Term), u.Const(64, 0)), true
	case "(time.Time).Sub":
		return u.BV(OSub, args[0].(AggV).Elems[1].(*Term), args[1].(AggV).Elems[1].(*Term)), true
	case "(time.Time).Before":
		return u.Cmp(OSlt, args[0].(AggV).Elems[1].(*Term), args[1].(AggV).Elems[1].(*Term)), true
	case "(time.Time).After":
		return u.Cmp(OSlt, args[1].(AggV).Elems[1].(*Term), args[0].(AggV).Elems[1].(*Term)), true
	case "(time.Time).Equal":
		return u.Eq(args[0].(AggV).Elems[1].(*Term), args[1].(AggV).Elems[1].(*Term)), true
	case "time.NewTicker":
		x.opaqueN++
		x.Notes = append(x.Notes, "time.NewTicker called")
		tk := x.Prog.ImportedPackage("time").Type("Ticker").Type()
		addr := x.allocAt(f, ins, tk, "time.Ticker")
		x.tickers = append(x.tickers, tickerRec{G: g, D: args[0].(*Term), Addr: addr})
		return PtrV{Alts: []PAlt{{u.True, addr}}}, true
	case "(*time.Ticker).Stop":
		return nil, true
	// ----- formatting: never the subject -----
	case "fmt.Sprintf", "fmt.Sprint", "fmt.Errorf":
		return u.Const(StrW, uint64(x.StrID("<formatted>"))), true
	case "fmt.Println", "fmt.Printf":
		return x.zeroResults(fn.Signature), true
	}
	return nil, false
}

type tickerRec struct {
	G    *Term
	D    *Term
	Addr int
}

func (x *Exec) intrinsic(f *frame, ins ssa.Instruction, fn *ssa.Function, name string, args []Value, g *Term) (Value, bool) {
	u := x.U
	switch name {
	case "VxU64", "VxI64", "VxInt":
		return x.Input(f, ins, x.strArg(args[0]), 64, g), true
	case "VxU32":
		return x.Input(f, ins, x.strArg(args[0]), 32, g), true
	case "VxU8":
		return x.Input(f, ins, x.strArg(args[0]), 8, g), true
	case "VxBool":
		return x.Input(f, ins, x.strArg(args[0]), 0, g), true
	case "VxStr":
		return x.Input(f, ins, x.strArg(args[0]), StrW, g), true
	case "VxChoice":
		n := args[1].(*Term)
		v := x.Input(f, ins, x.strArg(args[0]), 64, g)
		x.Assume(g, u.Cmp(OUlt, v, n), "")
		return v, true
	case "VxAssume":
		x.Assume(g, args[0].(*Term), "")
		return nil, true
	case "VxAssert":
		msg := x.strArg(args[1])
		x.oblige("assert", u.And(g, u.Not(args[0].(*Term))), msg, ins.Pos())
		return nil, true
	case "VxReach":
		x.Reach = append(x.Reach, ReachW{Label: x.strArg(args[0]), Cond: x.act(g)})
		return nil, true
	case "VxObserve":
		thr := -1
		if x.thr != nil {
			thr = x.thr.ID
			k := "obs@" + f.key(x, ins)
			if i, ok := x.thr.ObsIdx[k]; ok {
				x.Observes[i].G = g
				x.Observes[i].V = args[1]
				return nil, true
			}
			x.thr.ObsIdx[k] = len(x.Observes)
		}
		x.Observes = append(x.Observes, Obs{Name: x.strArg(args[0]), G: g, V: args[1], Thr: thr})
		return nil, true
	case "VxPar":
		x.par(f, ins, args[0].(SliceV), g)
		return nil, true
	case "VxParStalled":
		x.parStalled(f, ins, args[0].(FuncV), args[1].(FuncV), g)
		return nil, true
	case "VxYield":
		x.beginVis()
		x.visible(g, "VxYield")
		return nil, true
	case "VxClockSet":
		x.clock = u.Ite(x.act(g), args[0].(*Term), x.clock)
		return nil, true
	case "VxClockFree":
		c := args[0].(*Term)
		if !c.IsConst() {
			x.fail("VxClockFree needs a constant")
		}
		x.clockFree = c.Val == 1
		return nil, true
	case "VxNow":
		return x.readClock(g), true
	case "VxHashU64":
		if x.Concrete != nil {
			a, b := args[0].(*Term), args[1].(*Term)
			if a.IsConst() && b.IsConst() {
				if hv, ok := x.Concrete.Hash2[fmt.Sprintf("%d|%d", a.Val, b.Val)]; ok {
					return u.Const(64, hv), true
				}
				return u.Const(64, a.Val*0x9E3779B97F4A7C15^b.Val), true
			}
		}
		if x.Pin != nil {
			a, b := args[0].(*Term), args[1].(*Term)
			av, aok := x.pinned[a]
			bv, bok := x.pinned[b]
			if a.IsConst() {
				av, aok = a.Val, true
			}
			if b.IsConst() {
				bv, bok = b.Val, true
			}
			app := u.App("hash_2", 64, a, b)
			if aok && bok {
				if hv, ok := x.Pin.Hash2[fmt.Sprintf("%d|%d", av, bv)]; ok {
					x.Assumes = append(x.Assumes, u.Eq(app, u.Const(64, hv)))
				}
			}
			return app, true
		}
		return u.App("hash_2", 64, args[0].(*Term), args[1].(*Term)), true
	case "VxHashPtr":
		// pointer identity: nil -> 0, harness cell i -> i+1 (matches the native side)
		p := asPtr(args[0])
		var id *Term = u.Const(64, 0)
		for i := len(p.Alts) - 1; i >= 0; i-- {
			idx := uint64(0)
			if o, ok := x.ObjOf(p.Alts[i].Addr); ok {
				idx = uint64(p.Alts[i].Addr-o.Base) + 1
			}
			id = u.Ite(p.Alts[i].G, u.Const(64, idx), id)
		}
		return u.App("hash_2", 64, id, args[1].(*Term)), true
	case "VxHashStr":
		s, seed := args[0].(*Term), args[1].(*Term)
		return u.App("hashstr", 64, s, seed), true
	case "VxTimeNano":
		t := args[0].(AggV)
		return t.Elems[1], true
	case "VxTimeIsZero":
		t := args[0].(AggV)
		return u.Eq(t.Elems[0].(*Term), u.Const(64, 0)), true
	case "VxSpawned":
		// number of goroutines started so far whose guard holds
		n := u.Const(64, 0)
		for _, s := range x.Spawned {
			n = u.BV(OAdd, n, u.Ite(s.G, u.Const(64, 1), u.Const(64, 0)))
		}
		x.addStream("vx.spawned", StreamEnt{G: g, T: n, Thr: -1})
		return n, true
	case "VxNote":
		return nil, true
	case "VxRunSpawned", "VxRunFinalizer":
		// run the body of the i-th goroutine started so far (resp. the i-th registered finalizer) as a call
		it := args[0].(*Term)
		if !it.IsConst() {
			x.fail("%s needs a constant index", name)
		}
		list := x.Spawned
		if name == "VxRunFinalizer" {
			list = x.Finalizers
		}
		if int(it.Val) >= len(list) {
			x.oblige("assert", g, name+": no such goroutine/finalizer was registered", ins.Pos())
			return nil, true
		}
		sp := list[it.Val]
		fv, ok := sp.Fn.(FuncV)
		if iv, isI := sp.Fn.(IfaceV); isI {
			for _, pv := range iv.Pay {
				if ff, ok2 := pv.(FuncV); ok2 {
					fv, ok = ff, true
				}
			}
		}
		if !ok || len(fv.Alts) != 1 {
			x.fail("%s: not a plain closure", name)
		}
		sargs := sp.Args
		if name == "VxRunFinalizer" {
			// SetFinalizer(obj any, fn any): the finalizer receives obj's dynamic value
			if iv, isI := sp.Args[0].(IfaceV); isI {
				for _, pv := range iv.Pay {
					sargs = []Value{pv}
				}
			}
		}
		saved := x.parkLoops
		savedK, hadK := x.Cfg.Unwind[baseName(fv.Alts[0].Fn)]
		x.parkLoops = name == "VxRunSpawned"
		if x.parkLoops {
			x.Cfg.Unwind[baseName(fv.Alts[0].Fn)] = 1
		}
		x.CallFunction(fv.Alts[0].Fn, sargs, fv.Alts[0].Binds, u.And(g, sp.G), f.key(x, ins)+":spawn")
		x.parkLoops = saved
		if hadK {
			x.Cfg.Unwind[baseName(fv.Alts[0].Fn)] = savedK
		} else {
			delete(x.Cfg.Unwind, baseName(fv.Alts[0].Fn))
		}
		return nil, true
	case "VxSpawnReaches":
		it := args[0].(*Term)
		if !it.IsConst() || int(it.Val) >= len(x.Spawned) {
			return u.False, true
		}
		r := u.Bool(x.reaches(x.Spawned[it.Val], args[1]))
		x.addStream("vx.reaches", StreamEnt{G: g, T: x.toBV64(r), Thr: -1})
		return r, true
	case "VxFinalizerOn":
		// is a finalizer registered on the object p points to?
		r := u.False
		for _, fz := range x.Finalizers {
			if x.sameObject(fz.Args[0], args[0]) {
				r = u.Or(r, fz.G)
			}
		}
		x.addStream("vx.finalizer", StreamEnt{G: g, T: x.toBV64(r), Thr: -1})
		return r, true
	case "VxChanClosed":
		var ch OpaqueV
		switch a := args[0].(type) {
		case OpaqueV:
			ch = a
		case IfaceV:
			for _, pv := range a.Pay {
				if o, ok := pv.(OpaqueV); ok {
					ch = o
				}
			}
		}
		cl := x.chanClosed[ch.ID]
		if cl == nil {
			cl = u.False
		}
		x.addStream("vx.closed", StreamEnt{G: g, T: x.toBV64(cl), Thr: -1})
		return cl, true
	case "VxTickerNanos":
		var d *Term = u.Const(64, 0)
		for _, tk := range x.tickers {
			d = u.Ite(tk.G, tk.D, d)
		}
		x.addStream("vx.ticker", StreamEnt{G: g, T: d, Thr: -1})
		return d, true
	}
	return x.intrinsic2(f, ins, fn, name, args, g)
}


// elemPtr addresses element j of an array starting at base, dropping
// alternatives whose backing object is too short for that element.
func (x *Exec) elemPtr(base PtrV, j, stride int) PtrV {
	r := PtrV{}
	for _, al := range base.Alts {
		if o, ok := x.ObjOf(al.Addr); ok && al.Addr+(j+1)*stride > o.Base+o.N {
			continue
		}
		r.Alts = append(r.Alts, PAlt{al.G, al.Addr + j*stride})
	}
	return r
}


var reflectKind = map[types.BasicKind]uint64{
	types.Bool: 1, types.Int: 2, types.Int8: 3, types.Int16: 4, types.Int32: 5, types.Int64: 6,
	types.Uint: 7, types.Uint8: 8, types.Uint16: 9, types.Uint32: 10, types.Uint64: 11, types.Uintptr: 12,
	types.Float32: 13, types.Float64: 14, types.Complex64: 15, types.Complex128: 16, types.String: 24, types.UnsafePointer: 26,
}

func (x *Exec) rtypeMethod(ov OpaqueV, name string, ins ssa.Instruction) Value {
	T := x.TR.Type(ov.ID)
	switch name {
	case "Elem":
		switch ut := T.Underlying().(type) {
		case *types.Pointer:
			return OpaqueV{What: "rtype", ID: x.TR.ID(ut.Elem())}
		case *types.Slice:
			return OpaqueV{What: "rtype", ID: x.TR.ID(ut.Elem())}
		case *types.Array:
			return OpaqueV{What: "rtype", ID: x.TR.ID(ut.Elem())}
		}
		x.fail("reflect.Type.Elem on %v", T)
	case "Kind":
		var k uint64
		switch ut := T.Underlying().(type) {
		case *types.Basic:
			k = reflectKind[ut.Kind()]
		case *types.Array:
			k = 17
		case *types.Chan:
			k = 18
		case *types.Signature:
			k = 19
		case *types.Interface:
			k = 20
		case *types.Map:
			k = 21
		case *types.Pointer:
			k = 22
		case *types.Slice:
			k = 23
		case *types.Struct:
			k = 25
		}
		return x.U.Const(64, k)
	}
	x.fail("reflect.Type.%s not modelled at %s", name, x.pos(ins.Pos()))
	return nil
}

// eqLeaves flattens a value of type t into terms that are equal iff the values
// are == in Go (floats: +0 and -0 coincide; interfaces: dynamic type id + value).
func (x *Exec) eqLeaves(t types.Type, v Value, out []*Term) []*Term {
	u := x.U
	switch vv := v.(type) {
	case *Term:
		return append(out, x.toBV64(vv))
	case FloatV:
		var r *Term = u.Const(64, 0)
		for i := len(vv.Alts) - 1; i >= 0; i-- {
			f := vv.Alts[i].F
			if f == 0 {
				f = 0 // -0 -> +0
			}
			r = u.Ite(vv.Alts[i].G, u.Const(64, math.Float64bits(f)), r)
		}
		return append(out, r)
	case PtrV:
		var r *Term = u.Const(64, 0)
		for i := len(vv.Alts) - 1; i >= 0; i-- {
			r = u.Ite(vv.Alts[i].G, u.Const(64, uint64(vv.Alts[i].Addr)), r)
		}
		return append(out, r)
	case AggV:
		switch ut := t.Underlying().(type) {
		case *types.Struct:
			for i := range vv.Elems {
				out = x.eqLeaves(ut.Field(i).Type(), vv.Elems[i], out)
			}
		case *types.Array:
			for i := range vv.Elems {
				out = x.eqLeaves(ut.Elem(), vv.Elems[i], out)
			}
		}
		return out
	case IfaceV:
		// dynamic type id, then one combined value word per possible dynamic type
		out = append(out, u.Zext(vv.Tag, 64))
		var val *Term = u.Const(64, 0)
		for _, id := range sortedKeys(vv.Pay) {
			ls := x.eqLeaves(x.TR.Type(id), vv.Pay[id], nil)
			var h *Term = u.Const(64, uint64(id))
			for _, l := range ls {
				h = u.App("mix", 64, h, l)
			}
			val = u.Ite(u.Eq(vv.Tag, u.Const(16, uint64(id))), h, val)
		}
		return append(out, val)
	}
	x.fail("eqLeaves: unsupported key component %T", v)
	return nil
}

// typehash models runtime.typehash(t, p, h) by its contract: t must be a type
// descriptor and p must address a value OF THAT TYPE; the result is an
// uninterpreted function of (t, the ==-class of that value, h).
func (x *Exec) typehash(f *frame, ins ssa.Instruction, args []Value, g *Term) Value {
	u := x.U
	tt, ok := args[0].(*Term)
	if !ok {
		x.fail("typehash: type word is not a scalar")
	}
	h := args[2].(*Term)
	p := asPtr(args[1])
	ids := PossibleConsts(tt)
	if ids == nil {
		x.fail("typehash: type descriptor not enumerable")
	}
	x.oblige("nil", u.And(g, u.Eq(tt, u.Const(tt.W, 0))), "runtime.typehash called with a nil type descriptor (nil interface key)", ins.Pos())
	var res *Term = u.Const(64, 0)
	for _, id := range ids {
		if id == 0 || id == 0xFFFF {
			continue
		}
		T := x.TR.Type(int(id))
		if T == nil {
			continue
		}
		is := u.Eq(tt, u.Const(tt.W, id))
		// only the alternatives of p that can coexist with this type descriptor
		pp := PtrV{}
		for _, al := range p.Alts {
			if x.feasible(u.AndN(x.act(g), is, al.G)) {
				pp.Alts = append(pp.Alts, al)
			}
		}
		x.nilCheck(pp, u.And(g, is), "typehash", ins.Pos())
		v := x.loadRawAs(pp, T)
		ls := x.eqLeaves(T, v, nil)
		var hv *Term = u.App("mix", 64, u.Const(64, id), h)
		for _, l := range ls {
			hv = u.App("mix", 64, hv, l)
		}
		res = u.Ite(is, hv, res)
	}
	return res
}

// memhash(p, h, s): hash of s raw bytes at p: an uninterpreted function of the
// raw (not ==-normalised) content.
func (x *Exec) memhash(f *frame, ins ssa.Instruction, args []Value, g *Term) Value {
	u := x.U
	p := asPtr(args[0])
	h := args[1].(*Term)
	var res *Term = u.Const(64, 0)
	for i := len(p.Alts) - 1; i >= 0; i-- {
		al := p.Alts[i]
		var hv *Term = u.App("mix", 64, u.Const(64, 0xABCD), h)
		if al.Addr > 0 && al.Addr < len(x.cells) {
			switch cv := x.cells[al.Addr].(type) {
			case *Term:
				hv = u.App("mix", 64, hv, x.toBV64(cv))
			case FloatV:
				var r *Term = u.Const(64, 0)
				for j := len(cv.Alts) - 1; j >= 0; j-- {
					r = u.Ite(cv.Alts[j].G, u.Const(64, math.Float64bits(cv.Alts[j].F)), r)
				}
				hv = u.App("mix", 64, hv, r)
			default:
				x.fail("memhash over a %T cell not modelled", cv)
			}
		}
		res = u.Ite(al.G, hv, res)
	}
	return res
}


func ptrsOf(v Value, out []int) []int {
	switch vv := v.(type) {
	case PtrV:
		for _, a := range vv.Alts {
			out = append(out, a.Addr&ifaceViewMask)
		}
	case IfaceV:
		for _, p := range vv.Pay {
			out = ptrsOf(p, out)
		}
	case AggV:
		for _, e := range vv.Elems {
			out = ptrsOf(e, out)
		}
	case SliceV:
		out = ptrsOf(vv.Base, out)
	case FuncV:
		for _, al := range vv.Alts {
			for _, b := range al.Binds {
				out = ptrsOf(b, out)
			}
		}
	}
	return out
}

// reaches: can the object target points to be reached from what goroutine sp
// holds (closure bindings and arguments), following every pointer stored in
// the symbolic heap? (over-approximation: guards are ignored)
func (x *Exec) reaches(sp Spawn, target Value) bool {
	want := map[int]bool{}
	for _, a := range ptrsOf(target, nil) {
		if o, ok := x.ObjOf(a); ok {
			want[o.Base] = true
		}
	}
	seen := map[int]bool{}
	var work []int
	work = ptrsOf(sp.Fn, work)
	for _, a := range sp.Args {
		work = ptrsOf(a, work)
	}
	for len(work) > 0 {
		a := work[len(work)-1]
		work = work[:len(work)-1]
		o, ok := x.ObjOf(a)
		if !ok || a <= 0 || seen[o.Base] {
			continue
		}
		seen[o.Base] = true
		if want[o.Base] {
			return true
		}
		n := o.N
		if n == 0 {
			n = 1
		}
		for c := o.Base; c < o.Base+n && c < len(x.cells); c++ {
			work = ptrsOf(x.cells[c], work)
		}
	}
	return false
}

func (x *Exec) sameObject(a, b Value) bool {
	pa, pb := ptrsOf(a, nil), ptrsOf(b, nil)
	for _, p := range pa {
		for _, q := range pb {
			oa, ok1 := x.ObjOf(p)
			ob, ok2 := x.ObjOf(q)
			if ok1 && ok2 && oa.Base == ob.Base {
				return true
			}
		}
	}
	return false
}
