//go:build go1.21

package xsync

import (
	"sync"
	"sync/atomic"
	"unsafe"
)

// ---- arbitrary valid Map states (representation invariant by construction + assumption) ----

const vxMaxEnt = 16

// vxContent is an association list with statically indexed slots: the abstract
// content of a map. Slot i < vxMaxEnt-4 belongs to a physical position of the
// pre-state; the last four slots receive keys inserted by operations.
type vxContent struct {
	k     [vxMaxEnt]string
	v     [vxMaxEnt]interface{}
	ok    [vxMaxEnt]bool
	extra int // next free "inserted key" slot
}

func vxNewContent() *vxContent { return &vxContent{extra: vxMaxEnt - 4} }

func (c *vxContent) has(k string) bool {
	for i := 0; i < vxMaxEnt; i++ {
		if c.ok[i] && c.k[i] == k {
			return true
		}
	}
	return false
}

func (c *vxContent) get(k string) (interface{}, bool) {
	var v interface{}
	found := false
	for i := 0; i < vxMaxEnt; i++ {
		if c.ok[i] && c.k[i] == k {
			v, found = c.v[i], true
		}
	}
	return v, found
}

func (c *vxContent) put(k string, v interface{}) {
	found := false
	for i := 0; i < vxMaxEnt; i++ {
		if c.ok[i] && c.k[i] == k {
			c.v[i] = v
			found = true
		}
	}
	if !found {
		c.k[c.extra], c.v[c.extra], c.ok[c.extra] = k, v, true
	}
	c.extra++
}

func (c *vxContent) del(k string) {
	for i := 0; i < vxMaxEnt; i++ {
		if c.ok[i] && c.k[i] == k {
			c.ok[i] = false
		}
	}
}

func (c *vxContent) clear() {
	for i := 0; i < vxMaxEnt; i++ {
		c.ok[i] = false
	}
}

func (c *vxContent) count() int {
	n := 0
	for i := 0; i < vxMaxEnt; i++ {
		if c.ok[i] {
			n++
		}
	}
	return n
}

func VxArbVal(name string) interface{} {
	if VxBool(name + ".nil") {
		return nil
	}
	return VxInt(name)
}

// vxArbMap builds a Map whose current table has tableLen root buckets, each
// with a chain of up to `chain` buckets, every slot independently empty or
// occupied by a symbolic (key, value); stale top-hash bits of empty slots, the
// striped counters and the seed are free. The construction states the
// representation invariant of DESIGN.md §2.9 (own arithmetic, not the code's
// helpers). Returns the map and its abstract content.
func vxArbMap(tableLen, chain, minLen int, opts ...int) (*Map, *vxContent) {
	forced := len(opts) > 0 && opts[0] == 1 // every slot concretely occupied
	m := &Map{}
	m.resizeCond = *sync.NewCond(&m.resizeMu)
	m.minTableLen = minLen
	t := &mapTable{
		buckets: make([]bucketPadded, tableLen),
		size:    make([]counterStripe, minMapCounterLen),
		seed:    VxU64("seed"),
	}
	c := vxNewContent()
	slot := 0
	total := 0
	for r := 0; r < tableLen; r++ {
		b := &t.buckets[r]
		for ci := 0; ci < chain; ci++ {
			var th uint64
			for s := 0; s < entriesPerMapBucket; s++ {
				if forced || VxBool("occ") {
					k := new(string)
					*k = VxStr("pk")
					v := new(interface{})
					*v = VxArbVal("pv")
					h := hashString(*k, t.seed)
					VxAssume(h&uint64(tableLen-1) == uint64(r))
					for j := 0; j < slot; j++ {
						VxAssume(!c.ok[j] || c.k[j] != *k)
					}
					b.keys[s] = unsafe.Pointer(k)
					b.values[s] = unsafe.Pointer(v)
					th |= ((h >> 44) << 44) >> (20 * s)
					th |= 1 << (s + 1)
					c.k[slot], c.v[slot], c.ok[slot] = *k, *v, true
					total++
				} else {
					th |= ((VxU64("stale") >> 44) << 44) >> (20 * s)
				}
				slot++
			}
			b.topHashMutex = th
			if ci+1 < chain {
				if !VxBool("more") {
					break
				}
				nb := new(bucketPadded)
				b.next = unsafe.Pointer(nb)
				b = nb
			}
		}
	}
	// striped counters sum to the number of entries; how the total is split
	// between stripes is free (one free transfer between two free stripes:
	// inserts/deletes and resize's recount credit different stripes, so
	// single stripes may be anything, even negative)
	x := VxI64("stripe.transfer")
	from, to := VxChoice("stripe.from", minMapCounterLen), VxChoice("stripe.to", minMapCounterLen)
	VxAssume(from != to)
	t.size[from].c = int64(total) - x
	t.size[to].c = x
	atomic.StorePointer(&m.table, unsafe.Pointer(t))
	return m, c
}

func vxIsPow2(n int) bool { return n > 0 && n&(n-1) == 0 }

// vxCheckMap asserts the representation invariant on m's current table and
// that its abstract content equals want. tag prefixes the messages.
func vxCheckMap(m *Map, want *vxContent, extraKey string) {
	VxAssert(atomic.LoadInt64(&m.resizing) == 0, "RI: resizing flag clear at rest")
	t := (*mapTable)(atomic.LoadPointer(&m.table))
	n := len(t.buckets)
	VxAssert(vxIsPow2(n) && n >= m.minTableLen, "RI: table length is a power of two >= minTableLen")
	cnt := 0
	for r := 0; r < n; r++ {
		b := &t.buckets[r]
		VxAssert(b.topHashMutex&1 == 0, "RI: every bucket lock released")
		for {
			for s := 0; s < entriesPerMapBucket; s++ {
				kp, vp := b.keys[s], b.values[s]
				present := b.topHashMutex&(1<<(s+1)) != 0
				VxAssert((kp != nil) == present && (vp != nil) == present, "RI: presence bit <=> key pointer <=> value pointer")
				if kp != nil && vp != nil {
					k := *(*string)(kp)
					h := hashString(k, t.seed)
					VxAssert(h&uint64(n-1) == uint64(r), "RI: entry lives in the chain of its hash's root bucket")
					VxAssert(((b.topHashMutex<<(20*s))>>44) == h>>44, "RI: stored top hash equals the key's top 20 hash bits")
					wv, wok := want.get(k)
					VxAssert(wok && wv == *(*interface{})(vp), "content: every stored pair is an entry of the reference map (nothing resurrected or mixed)")
					cnt++
				}
			}
			if b.next == nil {
				break
			}
			b = (*bucketPadded)(b.next)
		}
	}
	VxObserve("post.cnt", cnt)
	VxAssert(int(t.sumSize()) == cnt, "RI/C08: striped counter sum equals the number of stored entries")
	VxAssert(m.Size() == cnt, "C08: Size() equals the number of stored entries")
	// stored ⊆ reference, |stored| = |reference| and every reference key found => equal, no duplicates
	VxAssert(cnt == want.count(), "content: number of stored entries equals the reference map's (nothing lost or duplicated)")
	for i := 0; i < vxMaxEnt; i++ {
		if want.ok[i] {
			lv, lok := m.Load(want.k[i])
			VxAssert(lok && lv == want.v[i], "content: Load finds every reference entry with its value")
		}
	}
	_, lok := m.Load(extraKey)
	VxAssert(want.has(extraKey) == lok, "content: Load(k) presence agrees with the reference map")
}

const (
	mopLoad = iota
	mopStore
	mopLoadOrStore
	mopLoadAndStore
	mopLoadOrCompute
	mopCompute
	mopLoadAndDelete
	mopDelete
	mopClear
	mopRange
	mopSize
)

// vxMapApply runs operation op on both the real map and the reference content
// and asserts equal results.
func vxMapApply(m *Map, c *vxContent, op int, k string, nv interface{}, del bool) {
	wv, wok := c.get(k)
	switch op {
	case mopLoad:
		v, ok := m.Load(k)
		VxObserve("ok", ok)
		VxAssert(ok == wok && v == wv, "Load: result equals the reference map's")
	case mopStore:
		m.Store(k, nv)
		c.put(k, nv)
	case mopLoadOrStore:
		v, loaded := m.LoadOrStore(k, nv)
		VxObserve("ok", loaded)
		VxAssert(loaded == wok, "LoadOrStore: loaded flag")
		if wok {
			VxAssert(v == wv, "LoadOrStore: returns the existing value")
		} else {
			VxAssert(v == nv, "LoadOrStore: returns the stored value")
			c.put(k, nv)
		}
	case mopLoadAndStore:
		v, loaded := m.LoadAndStore(k, nv)
		VxObserve("ok", loaded)
		VxAssert(loaded == wok, "LoadAndStore: loaded flag")
		if wok {
			VxAssert(v == wv, "LoadAndStore: returns the previous value")
		} else {
			VxAssert(v == nv, "LoadAndStore: returns the given value when absent")
		}
		c.put(k, nv)
	case mopLoadOrCompute:
		calls := 0
		v, loaded := m.LoadOrCompute(k, func() interface{} { calls++; return nv })
		VxObserve("ok", loaded)
		VxAssert(loaded == wok, "LoadOrCompute: loaded flag")
		if wok {
			VxAssert(v == wv && calls == 0, "LoadOrCompute: hit returns existing value, fn not called")
		} else {
			VxAssert(v == nv && calls == 1, "LoadOrCompute: miss calls fn exactly once and returns its value")
			c.put(k, nv)
		}
	case mopCompute:
		calls := 0
		var gotOld interface{}
		var gotLoaded bool
		v, ok := m.Compute(k, func(old interface{}, loaded bool) (interface{}, bool) {
			calls++
			gotOld, gotLoaded = old, loaded
			return nv, del
		})
		VxObserve("ok", ok)
		VxAssert(calls == 1, "Compute: fn called exactly once")
		VxAssert(gotLoaded == wok && gotOld == wv, "Compute: fn sees the current value")
		if del {
			VxAssert(!ok, "Compute(delete): ok=false")
			if wok {
				VxAssert(v == wv, "Compute(delete) of a present key returns the old value")
			} else {
				VxAssert(v == nil, "Compute(delete) of an absent key returns the zero value")
			}
			c.del(k)
		} else {
			VxAssert(ok && v == nv, "Compute(store): returns new value, ok=true")
			c.put(k, nv)
		}
	case mopLoadAndDelete:
		v, loaded := m.LoadAndDelete(k)
		VxObserve("ok", loaded)
		VxAssert(loaded == wok && v == wv, "LoadAndDelete: result equals the reference map's")
		c.del(k)
	case mopDelete:
		m.Delete(k)
		c.del(k)
	case mopClear:
		m.Clear()
		c.clear()
	case mopSize:
		VxAssert(m.Size() == c.count(), "Size: equals the reference map's len")
	case mopRange:
		var seen [vxMaxEnt]bool
		visits := 0
		stopAt := VxInt("stopAt")
		m.Range(func(rk string, rv interface{}) bool {
			visits++
			ev, eok := c.get(rk)
			VxAssert(eok && ev == rv, "Range: visited pair is an entry of the map")
			for i := 0; i < vxMaxEnt; i++ {
				if c.ok[i] && c.k[i] == rk {
					VxAssert(!seen[i], "Range: no key visited twice")
					seen[i] = true
				}
			}
			return visits != stopAt
		})
		VxObserve("visits", visits)
		if stopAt >= 1 && stopAt <= c.count() {
			VxAssert(visits == stopAt, "Range: stops immediately when the visitor returns false")
		} else {
			VxAssert(visits == c.count(), "Range: visits every entry exactly once")
		}
	}
}

// VxH_Map_step: one operation from an arbitrary valid state of the given
// shape (C11 inductive step; also C07a, C08, C13(i)).
func VxH_Map_step(op, tableLen, chain, minLen, mode int) {
	m, c := vxArbMap(tableLen, chain, minLen)
	k := VxStr("k")
	nv := VxArbVal("nv")
	del := VxBool("del")
	if mode != 0 {
		// mode 1: the operation does not need to grow the table; mode 2: it does
		t := (*mapTable)(m.table)
		thr := int64(float64(tableLen) * entriesPerMapBucket * mapLoadFactor)
		root := &t.buckets[hashString(k, t.seed)&uint64(tableLen-1)]
		full := true
		for b := root; ; b = (*bucketPadded)(b.next) {
			for s := 0; s < entriesPerMapBucket; s++ {
				if b.keys[s] == nil {
					full = false
				}
			}
			if b.next == nil {
				break
			}
		}
		grow := !c.has(k) && full && int64(c.count()) > thr
		VxAssume(grow == (mode == 2))
	}
	VxReach("pre-state built")
	vxMapApply(m, c, op, k, nv, del)
	VxReach("operation returned")
	vxCheckMap(m, c, k)
}
