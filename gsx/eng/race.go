package eng

import (
	"fmt"
	"go/token"
)

// Data-race query (C14). Every heap access made inside VxPar is recorded with
// its "group": the visible operation it belongs to (a visible operation's own
// index; plain accesses belong to the visible operation that precedes them).
// Two accesses race when they conflict (same cell, at least one write, not both
// atomic) and their groups can be adjacent in an interleaving: at a round
// boundary the last group of the thread that stops and the first group of the
// thread that continues are adjacent, and nothing orders their plain accesses.

type accRec struct {
	thr, round int
	addr       int
	g          *Term
	act        *Term // executed in this round
	grp        *Term // BV16; 0xFFFF = code before the first visible operation
	write      bool
	atomic     bool
	pos        string
}

type raceState struct {
	log []accRec
}

func (x *Exec) raceAccess(p PtrV, n int, g *Term, write, atomic bool, pos token.Pos) {
	if x.race == nil || x.thr == nil {
		return
	}
	u := x.U
	t := x.thr
	var grp *Term
	if x.vis {
		grp = t.C
	} else {
		grp = u.BV(OSub, t.C, u.Const(cntW, 1))
	}
	ps := x.pos(pos)
	for _, al := range p.Alts {
		gg := u.And(g, al.G)
		if gg.IsFalse() {
			continue
		}
		act := x.act(gg)
		for j := 0; j < n; j++ {
			x.race.log = append(x.race.log, accRec{thr: t.ID, round: t.Round, addr: al.Addr + j, g: gg, act: act, grp: grp, write: write, atomic: atomic, pos: ps})
		}
	}
}

// raceObligation builds the race condition for two threads and two rounds
// (order A1 B1 A2 B2).
func (x *Exec) raceObligation(thrs []*Thread, pos string) {
	if x.race == nil || len(thrs) != 2 || x.Cfg.Rounds != 2 {
		return
	}
	u := x.U
	A, B := thrs[0], thrs[1]
	one := u.Const(cntW, 1)
	hiA1, hiA2 := A.His[0], A.His[1]
	hiB1 := B.His[0]
	type side struct {
		thr, round int
		grp        *Term
		ok         *Term
	}
	bounds := [][2]side{
		// A1 | B1
		{{A.ID, 1, u.BV(OSub, hiA1, one), u.Not(u.Eq(hiA1, u.Const(cntW, 0)))}, {B.ID, 1, u.Const(cntW, 0), u.Not(u.Eq(hiB1, u.Const(cntW, 0)))}},
		// B1 | A2
		{{B.ID, 1, u.BV(OSub, hiB1, one), u.Not(u.Eq(hiB1, u.Const(cntW, 0)))}, {A.ID, 2, hiA1, u.Cmp(OUlt, hiA1, hiA2)}},
		// A2 | B2
		{{A.ID, 2, u.BV(OSub, hiA2, one), u.Cmp(OUlt, hiA1, hiA2)}, {B.ID, 2, hiB1, u.Cmp(OUlt, hiB1, B.His[1])}},
	}
	byAddr := map[int][]int{}
	for i, a := range x.race.log {
		byAddr[a.addr] = append(byAddr[a.addr], i)
	}
	cond := u.False
	var sample string
	npairs := 0
	for _, idxs := range byAddr {
		for _, i := range idxs {
			for _, j := range idxs {
				a, b := x.race.log[i], x.race.log[j]
				if a.thr == b.thr || !(a.write || b.write) || (a.atomic && b.atomic) {
					continue
				}
				// code before a thread's first visible operation can be delayed up to that
				// operation: it is unordered with every group the other thread runs before it
				if a.round == 1 && a.grp.IsConst() && a.grp.Val == 0xFFFF {
					var c *Term
					zero := u.Const(cntW, 0)
					switch {
					case a.thr == A.ID && b.round == 1:
						c = u.AndN(a.act, b.act, u.Eq(hiA1, zero))
					case a.thr == B.ID && b.round == 1:
						c = u.And(a.act, b.act)
					case a.thr == B.ID && b.round == 2:
						c = u.AndN(a.act, b.act, u.Eq(hiB1, zero))
					}
					if c != nil && !c.IsFalse() {
						npairs++
						cond = u.Or(cond, c)
					}
				}
				for _, bd := range bounds {
					if a.thr != bd[0].thr || a.round != bd[0].round || b.thr != bd[1].thr || b.round != bd[1].round {
						continue
					}
					c := u.AndN(a.g, b.g, bd[0].ok, bd[1].ok, u.Eq(a.grp, bd[0].grp), u.Eq(b.grp, bd[1].grp))
					if c.IsFalse() {
						continue
					}
					npairs++
					if sample == "" {
						sample = fmt.Sprintf("%s / %s", a.pos, b.pos)
					}
					cond = u.Or(cond, c)
				}
			}
		}
	}
	x.Notes = append(x.Notes, fmt.Sprintf("race query: %d accesses recorded, %d candidate conflicting pairs", len(x.race.log), npairs))
	x.Obligs = append(x.Obligs, Oblig{Kind: "race", Cond: cond, Msg: "data race: two conflicting accesses (at least one plain) are adjacent in an interleaving", Pos: pos})
}
