//go:build go1.21

package cache

import (
	"time"

	"github.com/fufuok/cache/internal/xsync"
)

// Concurrent cache harnesses (C02, C05, C06): two threads, one call each, on
// the real stack (cache layer over the real xsync map, 1 root bucket), clock
// frozen during the concurrent phase, schedule symbolic. Oracle:
// linearizability against the TTL-map reference including the ledger of
// evicted callbacks.

type vxCRes struct {
	v     interface{}
	ok    bool
	calls int
	old   interface{}
	oldOk bool
}

// genof
func vxCacheDo(c *xsyncMap, op int, k string, nv interface{}, d time.Duration, del bool) vxCRes {
	var r vxCRes
	switch op {
	case opSet:
		c.Set(k, nv, d)
	case opGet:
		r.v, r.ok = c.Get(k)
	case opGetOrSet:
		r.v, r.ok = c.GetOrSet(k, nv, d)
	case opGetAndSet:
		r.v, r.ok = c.GetAndSet(k, nv, d)
	case opGetAndRefresh:
		r.v, r.ok = c.GetAndRefresh(k, d)
	case opGetOrCompute:
		r.v, r.ok = c.GetOrCompute(k, func() interface{} { r.calls++; return nv }, d)
	case opCompute:
		r.v, r.ok = c.Compute(k, func(old interface{}, loaded bool) (interface{}, bool) {
			r.calls++
			r.old, r.oldOk = old, loaded
			return nv, del
		}, d)
	case opGetAndDelete:
		r.v, r.ok = c.GetAndDelete(k)
	case opDelete:
		c.Delete(k)
	case opDeleteExpired:
		c.DeleteExpired()
	case opClear:
		c.Clear()
	}
	return r
}

// vxRefCacheDo: sequential TTL-map specification, with the ledger of entries
// whose removal must fire the evicted callback.
func vxRefCacheDo(r *vxRef, l *vxLedger, op int, k string, nv interface{}, d time.Duration, del bool, now int64) vxCRes {
	var res vxCRes
	wv, _, wok := r.get(k, now)
	pi := r.find(k) // physically present (maybe expired)
	switch op {
	case opSet:
		r.put(k, nv, r.exp(d, now))
	case opGet:
		res.v, res.ok = wv, wok
		if !wok {
			r.del(k) // lazy deletion of an expired entry is allowed (not a callback event)
		}
	case opGetOrSet:
		if wok {
			res.v, res.ok = wv, true
		} else {
			res.v, res.ok = nv, false
			r.put(k, nv, r.exp(d, now))
		}
	case opGetAndSet:
		if wok {
			res.v, res.ok = wv, true
		} else {
			res.v, res.ok = nv, false
		}
		r.put(k, nv, r.exp(d, now))
	case opGetAndRefresh:
		res.v, res.ok = wv, wok
		if wok {
			r.put(k, wv, r.exp(d, now))
		} else {
			r.del(k)
		}
	case opGetOrCompute:
		if wok {
			res.v, res.ok = wv, true
		} else {
			res.v, res.ok, res.calls = nv, false, 1
			r.put(k, nv, r.exp(d, now))
		}
	case opCompute:
		res.calls = 1
		res.old, res.oldOk = wv, wok
		if del {
			res.v, res.ok = wv, false
			r.del(k)
		} else {
			res.v, res.ok = nv, true
			r.put(k, nv, r.exp(d, now))
		}
	case opGetAndDelete, opDelete:
		if pi >= 0 {
			l.add(k, r.ents[pi].v)
		}
		if op == opGetAndDelete {
			res.v, res.ok = wv, wok
		}
		r.del(k)
	case opDeleteExpired:
		for i := 0; i < 3; i++ {
			if r.ents[i].ok && r.ents[i].e > 0 && now > r.ents[i].e {
				l.add(r.ents[i].k, r.ents[i].v)
				r.ents[i].ok = false
			}
		}
	case opClear:
		for i := 0; i < 3; i++ {
			r.ents[i].ok = false
		}
	}
	return res
}

func vxCResEq(a, b vxCRes) bool {
	return a.v == b.v && a.ok == b.ok && a.calls == b.calls && a.old == b.old && a.oldOk == b.oldOk
}

func vxLedgerEq(a, b *vxLedger) bool {
	if a.n != b.n {
		return false
	}
	// as multisets (at most 2 entries are ever fired in these harnesses)
	ok := true
	for i := 0; i < 2; i++ {
		if i < a.n {
			ok = ok && a.has(a.k[i], a.v[i]) == b.has(a.k[i], a.v[i])
		}
	}
	return ok
}

// genof
func vxCacheFinalEq(c *xsyncMap, r *vxRef, k1, k2 string, now int64) bool {
	v1, ok1 := c.Get(k1)
	w1, _, wok1 := r.get(k1, now)
	v2, ok2 := c.Get(k2)
	w2, _, wok2 := r.get(k2, now)
	return ok1 == wok1 && v1 == w1 && ok2 == wok2 && v2 == w2
}

// VxH_C02_par2: A ∥ B on the cache.
func VxH_C02_par2(opA, opB, sameKey, seam int) {
	now := xsync.VxI64("now")
	xsync.VxAssume(now >= 0 && now < 1<<62)
	xsync.VxClockSet(now)
	var led vxLedger
	cb := func(k string, v interface{}) { led.add(k, v) }
	c := vxNewCache(1, NoExpiration, cb)
	if seam == 1 {
		c = vxNewSeamCache(NoExpiration, cb)
	}
	r := &vxRef{def: NoExpiration}
	k1 := xsync.VxStr("k1")
	pv := xsync.VxInt("pv")
	if xsync.VxBool("has1") {
		e := xsync.VxI64("pe1")
		xsync.VxAssume(e >= 0)
		vxPut(c, k1, pv, e)
		r.put(k1, pv, e)
	}
	kA, kB := xsync.VxStr("kA"), xsync.VxStr("kB")
	if sameKey == 1 {
		xsync.VxAssume(kA == kB)
	}
	nvA, nvB := xsync.VxInt("nvA"), xsync.VxInt("nvB")
	xsync.VxAssume(nvA != nvB && nvA != pv && nvB != pv)
	dA, dB := time.Duration(xsync.VxI64("dA")), time.Duration(xsync.VxI64("dB"))
	delA, delB := xsync.VxBool("delA"), xsync.VxBool("delB")
	var rA, rB vxCRes
	xsync.VxReach("pre-state built")
	xsync.VxPar(
		func() { rA = vxCacheDo(c, opA, kA, nvA, dA, delA) },
		func() { rB = vxCacheDo(c, opB, kB, nvB, dB, delB) },
	)
	xsync.VxReach("both threads finished")
	xsync.VxObserve("A.ok", rA.ok)
	xsync.VxObserve("B.ok", rB.ok)
	xsync.VxObserve("fired", led.n)
	// order A;B
	r1 := *r
	var l1 vxLedger
	eA1 := vxRefCacheDo(&r1, &l1, opA, kA, nvA, dA, delA, now)
	eB1 := vxRefCacheDo(&r1, &l1, opB, kB, nvB, dB, delB, now)
	ab := vxCResEq(rA, eA1) && vxCResEq(rB, eB1)
	// order B;A
	r2 := *r
	var l2 vxLedger
	eB2 := vxRefCacheDo(&r2, &l2, opB, kB, nvB, dB, delB, now)
	eA2 := vxRefCacheDo(&r2, &l2, opA, kA, nvA, dA, delA, now)
	ba := vxCResEq(rA, eA2) && vxCResEq(rB, eB2)
	// the ledger and the final state are compared before the quiescent Gets (which may lazily delete)
	lab, lba := vxLedgerEq(&led, &l1), vxLedgerEq(&led, &l2)
	fab := vxCacheFinalEq(c, &r1, kA, kB, now) && vxCacheFinalEq(c, &r1, k1, k1, now)
	fba := vxCacheFinalEq(c, &r2, kA, kB, now) && vxCacheFinalEq(c, &r2, k1, k1, now)
	xsync.VxAssert((ab && fab) || (ba && fba), "C02 linearizable: some order of the two calls explains all results and the final contents")
	xsync.VxAssert((ab && fab && lab) || (ba && fba && lba), "C06: the evicted-callback ledger is the one of a linearization (each removed entry fired once, with its own value)")
}

// genof
func vxSettingsDo(c *xsyncMap, op int, k string, d time.Duration) {
	switch op {
	case 0:
		c.SetDefaultExpiration(d)
	case 1:
		c.SetEvictedCallback(func(string, interface{}) {})
	case 2:
		c.Set(k, 1, DefaultExpiration)
	case 3:
		c.GetAndDelete(k)
	case 4:
		c.DeleteExpired()
	case 5:
		c.DefaultExpiration()
	case 6:
		c.EvictedCallback()
	case 7:
		c.Get(k)
	}
}

// VxH_C14_settings: SetDefaultExpiration / SetEvictedCallback racing with the
// calls that read those settings (data-race query; no shared harness state).
func VxH_C14_settings(opA, opB int) {
	now := xsync.VxI64("now")
	xsync.VxAssume(now >= 0 && now < 1<<62)
	xsync.VxClockSet(now)
	c := vxNewSeamCache(NoExpiration, func(string, interface{}) {})
	k := xsync.VxStr("k")
	if xsync.VxBool("has") {
		e := xsync.VxI64("e")
		xsync.VxAssume(e >= 0)
		vxPut(c, k, 5, e)
	}
	dA, dB := time.Duration(xsync.VxI64("dA")), time.Duration(xsync.VxI64("dB"))
	xsync.VxReach("pre-state built")
	xsync.VxPar(
		func() { vxSettingsDo(c, opA, k, dA) },
		func() { vxSettingsDo(c, opB, k, dB) },
	)
	xsync.VxObserve("count", c.Count())
	xsync.VxReach("end")
}

// VxH_C16_cache: a writer is stalled at an arbitrary point of a cache call
// (GetOrCompute / Compute parked inside the user function while holding the
// key's bucket lock, Set, Delete); the reader then runs alone on the real
// stack and must complete without waiting: lookups of a present-and-unexpired
// or absent key, and Count.
func VxH_C16_cache(wop, rop int) {
	now := xsync.VxI64("now")
	xsync.VxAssume(now >= 0 && now < 1<<62)
	xsync.VxClockSet(now)
	c := vxNewCache(1, NoExpiration, nil)
	k1 := xsync.VxStr("k1")
	pv := xsync.VxInt("pv")
	has1 := xsync.VxBool("has1")
	e1 := xsync.VxI64("pe1")
	xsync.VxAssume(e1 >= 0)
	// the claim is about keys that are present-and-unexpired or absent
	xsync.VxAssume(!has1 || !(e1 > 0 && now > e1))
	if has1 {
		vxPut(c, k1, pv, e1)
	}
	kW, kR := xsync.VxStr("kW"), xsync.VxStr("kR")
	nv := xsync.VxInt("nv")
	xsync.VxAssume(nv != pv)
	d := time.Duration(xsync.VxI64("d"))
	var rv interface{}
	var rok bool
	var ttl time.Duration
	var cnt int
	bv, bok := interface{}(nil), false
	if has1 && kR == k1 {
		bv, bok = pv, true
	}
	xsync.VxReach("pre-state built")
	xsync.VxParStalled(
		func() {
			switch wop {
			case opGetOrCompute:
				c.GetOrCompute(kW, func() interface{} { xsync.VxYield(); return nv }, d)
			case opCompute:
				c.Compute(kW, func(interface{}, bool) (interface{}, bool) { xsync.VxYield(); return nv, false }, d)
			case opSet:
				c.Set(kW, nv, d)
			case opDelete:
				c.Delete(kW)
			}
		},
		func() {
			switch rop {
			case opGet:
				rv, rok = c.Get(kR)
			case opGetWithTTL:
				rv, ttl, rok = c.GetWithTTL(kR)
			case opGetWithExpiration:
				rv, _, rok = c.GetWithExpiration(kR)
			case opClear: // stands for Count()
				cnt = c.Count()
			}
		},
	)
	xsync.VxReach("reader finished")
	xsync.VxObserve("r.ok", rok)
	_ = ttl
	if rop != opClear {
		if kR != kW {
			xsync.VxAssert(rok == bok && rv == bv, "stalled writer: a key the writer does not touch reads its stored value")
		} else {
			// the writer may or may not have completed its store/delete
			xsync.VxAssert((rok == bok && rv == bv) || (rok && rv == interface{}(nv)) || (!rok && wop == opDelete), "stalled writer: lookup returns the value before or after the writer's call")
		}
	} else {
		xsync.VxAssert(cnt >= 0 && cnt <= 2, "stalled writer: Count returns")
	}
}

// VxH_C07_itemsPar: Items() concurrent with one Set, over the seam with an
// arbitrary placement of up to three stored entries: every key that stays
// present and unexpired for the whole call is in the result with its value.
func VxH_C07_itemsPar() {
	now := xsync.VxI64("now")
	xsync.VxAssume(now >= 0 && now < 1<<62)
	xsync.VxClockSet(now)
	s := &vxSeam[interface{}]{}
	var ks [3]string
	var vs [3]int
	var occ [3]bool
	for i := 0; i < 3; i++ {
		ks[i], vs[i], occ[i] = xsync.VxStr("k"), xsync.VxInt("v"), xsync.VxBool("occ")
		for j := 0; j < i; j++ {
			xsync.VxAssume(ks[j] != ks[i])
		}
		if occ[i] {
			s.k[i], s.v[i], s.ok[i] = ks[i], item{vs[i], 0}, true
		}
	}
	c := vxNewSeamCache(NoExpiration, nil)
	c.items = s
	kB := xsync.VxStr("kB")
	nvB := xsync.VxInt("nvB")
	var got map[string]interface{}
	xsync.VxReach("pre-state built")
	xsync.VxPar(
		func() { got = c.Items() },
		func() { c.Set(kB, nvB, 0) },
	)
	xsync.VxReach("both threads finished")
	xsync.VxObserve("n", len(got))
	for i := 0; i < 3; i++ {
		if occ[i] && ks[i] != kB {
			v, ok := got[ks[i]]
			xsync.VxAssert(ok && v == interface{}(vs[i]), "Items: a key that stays present and unexpired for the whole call is in the result with its value")
		}
	}
	v, ok := got[kB]
	if ok {
		stored := false
		for i := 0; i < 3; i++ {
			if occ[i] && ks[i] == kB && v == interface{}(vs[i]) {
				stored = true
			}
		}
		xsync.VxAssert(stored || v == interface{}(nvB), "Items: a reported value was stored under that key")
	}
}
