#!/usr/bin/env python3
"""Writes seeded/<id>/meta.json from README.md, verify.txt and result.txt, and prints the table for DESIGN.md §10."""
import json, os, re, glob
V = os.path.join(os.path.dirname(os.path.abspath(__file__)), '..')
rows = []
for d in sorted(glob.glob(os.path.join(V, 'seeded', '*'))):
    sid = os.path.basename(d)
    prop = sid.split('-')[0]
    readme = open(os.path.join(d, 'README.md')).read() if os.path.exists(os.path.join(d, 'README.md')) else ''
    verify = open(os.path.join(d, 'verify.txt')).read().strip() if os.path.exists(os.path.join(d, 'verify.txt')) else ''
    results = [l.strip() for l in open(os.path.join(d, 'result.txt'))] if os.path.exists(os.path.join(d, 'result.txt')) else []
    # what it needs: look for a heading/paragraph mentioning "need"/"manifest"/"trigger"
    needs = ''
    m = re.search(r'(?is)(?:needed|what is needed|to manifest|trigger|interleaving)[^\n]*\n+(.{40,600}?)(?:\n\n|\Z)', readme)
    if m:
        needs = ' '.join(m.group(1).split())[:500]
    if not needs:
        needs = ' '.join(readme.split())[:400]
    caught_by = [r.split()[1] for r in results if len(r.split()) > 2 and r.split()[2] == 'CAUGHT']
    caught_by = sorted(set(caught_by), key=caught_by.index)
    missed_by = [r.split()[1] for r in results if len(r.split()) > 2 and r.split()[2] in ('missed', 'inconclusive') and r.split()[1] not in caught_by]
    missed_by = sorted(set(missed_by), key=missed_by.index)
    meta = {
        "seed": sid, "breaks_property": prop,
        "patch": "patch.diff", "demonstration": [os.path.basename(f) for f in glob.glob(os.path.join(d, '*_test.go'))],
        "needs_to_manifest": needs,
        "confirmed": verify,
        "what_was_run": ["tools/verify_seeds.sh " + sid + " (scratch worktree at the seed's base commit: build, unedited suite, demo with/without the change)",
                         "tools/run_seeds.sh " + sid + " (git -C /repo apply; ./check <prop> quick; git -C /repo checkout -- .)"],
        "check_results": results, "caught_by": caught_by, "missed_by": missed_by,
    }
    json.dump(meta, open(os.path.join(d, 'meta.json'), 'w'), indent=1)
    rows.append((sid, ', '.join(caught_by) or '—', ', '.join(missed_by) or '—'))
print('| seed | caught by | run but not caught |\n|---|---|---|')
for r in rows:
    print('| %s | %s | %s |' % r)
