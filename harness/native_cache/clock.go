//go:build go1.21

package cache

import (
	"time"

	"github.com/fufuok/cache/internal/xsync"
)

func vxTimeNow() time.Time {
	if xsync.VxRT == nil {
		return time.Now()
	}
	return time.Unix(0, xsync.VxRT.Clock)
}

func vxTimeUntil(t time.Time) time.Duration {
	if xsync.VxRT == nil {
		return time.Until(t)
	}
	return time.Duration(t.UnixNano() - xsync.VxRT.Clock)
}

func vxTimeSince(t time.Time) time.Duration {
	if xsync.VxRT == nil {
		return time.Since(t)
	}
	return time.Duration(xsync.VxRT.Clock - t.UnixNano())
}
