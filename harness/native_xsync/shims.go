//go:build go1.21

package xsync

// Native-only shims: every sync/atomic call, mutex/cond operation and
// Gosched of the repository is redirected here (by rewriting a scratch copy of
// the sources at build time) so that the replay scheduler sees each visible
// operation.

import (
	"runtime"
	"sync/atomic"
	"unsafe"
)


func vxLoadPointer(p *unsafe.Pointer) unsafe.Pointer {
	vxEnter()
	v := atomic.LoadPointer(p)
	vxExit()
	return v
}
func vxStorePointer(p *unsafe.Pointer, v unsafe.Pointer) {
	vxEnter()
	atomic.StorePointer(p, v)
	vxExit()
}
func vxLoadUint64(p *uint64) uint64 {
	vxEnter()
	v := atomic.LoadUint64(p)
	vxExit()
	return v
}
func vxStoreUint64(p *uint64, v uint64) {
	vxEnter()
	atomic.StoreUint64(p, v)
	vxExit()
}
func vxLoadInt64(p *int64) int64 {
	vxEnter()
	v := atomic.LoadInt64(p)
	vxExit()
	return v
}
func vxStoreInt64(p *int64, v int64) {
	vxEnter()
	atomic.StoreInt64(p, v)
	vxExit()
}
func vxAddInt64(p *int64, d int64) int64 {
	vxEnter()
	v := atomic.AddInt64(p, d)
	vxExit()
	return v
}
func vxCASInt64(p *int64, o, n int64) bool {
	vxEnter()
	v := atomic.CompareAndSwapInt64(p, o, n)
	vxExit()
	return v
}
func vxCASUint64(p *uint64, o, n uint64) bool {
	vxEnter()
	v := atomic.CompareAndSwapUint64(p, o, n)
	vxExit()
	return v
}
func vxGosched() {
	vxEnter()
	if VxRT == nil || VxRT.sch == nil || VxRT.sch.free {
		runtime.Gosched()
	}
	vxExit()
}

// vxMutex replaces sync.Mutex in the scratch copy (same size: 8 bytes, so the
// cache-line padding arithmetic of the bucket types is unchanged).
type vxMutex struct {
	held int32
	_    int32
}

func (m *vxMutex) coop() bool { return VxRT != nil && VxRT.sch != nil && !VxRT.sch.free && VxRT.cur >= 0 }

func (m *vxMutex) Lock() {
	if !m.coop() {
		for !atomic.CompareAndSwapInt32(&m.held, 0, 1) {
			runtime.Gosched()
		}
		return
	}
	vxBlock(func() bool { return atomic.LoadInt32(&m.held) == 0 })
	vxEnter()
	atomic.StoreInt32(&m.held, 1)
	vxExit()
}

func (m *vxMutex) Unlock() {
	if !m.coop() {
		if !atomic.CompareAndSwapInt32(&m.held, 1, 0) {
			panic("sync: unlock of unlocked mutex")
		}
		return
	}
	vxEnter()
	if !atomic.CompareAndSwapInt32(&m.held, 1, 0) {
		panic("sync: unlock of unlocked mutex")
	}
	vxExit()
}

func (m *vxMutex) TryLock() bool {
	return atomic.CompareAndSwapInt32(&m.held, 0, 1)
}

// vxCond replaces sync.Cond.
type vxCond struct {
	L   *vxMutex
	gen uint32
}

func vxNewCond(l *vxMutex) *vxCond {
	return &vxCond{L: l}
}

func (c *vxCond) coop() bool { return VxRT != nil && VxRT.sch != nil && !VxRT.sch.free && VxRT.cur >= 0 }

func (c *vxCond) Wait() {
	if !c.coop() {
		// free-running: poll the generation (only used in race replays)
		g := atomic.LoadUint32(&c.gen)
		c.L.Unlock()
		for atomic.LoadUint32(&c.gen) == g {
			runtime.Gosched()
		}
		c.L.Lock()
		return
	}
	// step A: unlock + remember generation (one visible operation)
	vxEnter()
	g := atomic.LoadUint32(&c.gen)
	atomic.StoreInt32(&c.L.held, 0)
	vxExit()
	// step B: resume when the generation moved and L is free
	vxBlock(func() bool { return atomic.LoadUint32(&c.gen) != g && atomic.LoadInt32(&c.L.held) == 0 })
	vxEnter()
	atomic.StoreInt32(&c.L.held, 1)
	vxExit()
}

func (c *vxCond) Broadcast() {
	vxEnter()
	atomic.AddUint32(&c.gen, 1)
	vxExit()
}

func (c *vxCond) Signal() { c.Broadcast() }

// VxMutex: exported name for harness code of package cache (seam model map).
type VxMutex = vxMutex
