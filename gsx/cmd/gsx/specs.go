package main

import (
	"fmt"

	"gsx/eng"
)

var cacheOps = []string{"Set", "SetDefault", "SetForever", "Get", "GetWithExpiration", "GetWithTTL", "GetOrSet", "GetAndSet",
	"GetAndRefresh", "GetOrCompute", "Compute", "GetAndDelete", "Delete", "DeleteExpired", "Clear"}

var commonStubs = []string{
	"stub: xsync.hashString = uninterpreted function of (string id, seed), with hashString(\"\", seed) = seed (every hash function, incl. fully colliding ones)",
	"stub: runtime_fastrand = arbitrary uint32 (table seeds are free variables); makeSeed's retry loop pruned to its first non-zero draw",
	"stub: time.Now/Until/Since read a virtual clock variable; time.Time abstracted to (isZero, unixNano)",
	"stub: sync/atomic.* = sequentially consistent single-step accesses; atomic.Value = one interface cell",
	"stub: strings are abstract 16-bit ids (only == and \"\" are observed by the code under test)",
}

func init() {
	register(&PropSpec{
		ID:        "C01",
		Technique: "bounded symbolic execution of go/ssa to QF_UFBV (z3): one inductive step per Cache method from an arbitrary 2-entry pre-state, symbolic clock/TTL, vs. reference TTL map; counterexamples replayed natively",
		Bounds:    map[string]interface{}{"keys": 3, "pre_state_entries": 2, "table_len": 1, "ops_per_step": 1, "clock": "[0,2^62)", "unwind_default": 4},
		Stubs:     commonStubs,
		Outside:   []string{"more than 2 stored entries per step", "clock beyond 2^62 ns", "tables longer than 1 bucket in this harness (bucket layout independence is C11)"},
		Quick: func() []eng.Instance {
			var is []eng.Instance
			for i, n := range cacheOps {
				is = append(is, eng.Instance{Name: fmt.Sprintf("C01/Cache/step/%s", n), Pkg: "cache", Func: "VxH_C01_step", Args: []int64{int64(i)}})
			}
			return is
		},
	})
}
