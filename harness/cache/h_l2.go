//go:build go1.21

package cache

import (
	"time"

	"github.com/fufuok/cache/internal/xsync"
)

// ledger of evicted-callback invocations (bounded)
type vxLedger struct {
	k [4]string
	v [4]interface{}
	n int
}

func (l *vxLedger) add(k string, v interface{}) {
	if l.n < 4 {
		l.k[l.n], l.v[l.n] = k, v
	}
	l.n++
}

func (l *vxLedger) has(k string, v interface{}) int {
	n := 0
	for i := 0; i < 4; i++ {
		if i < l.n && l.k[i] == k && l.v[i] == v {
			n++
		}
	}
	return n
}

// ---------------------------------------------------------------- C12: twins

// VxH_C12_twin: the same pre-state and the same call on Cache and on
// CacheOf[string, interface{}]; every observable must agree.
// nogen
func VxH_C12_twin(op int) {
	now := xsync.VxI64("now")
	xsync.VxAssume(now >= 0 && now < 1<<62)
	xsync.VxClockSet(now)
	def := time.Duration(xsync.VxI64("default"))
	var la, lb vxLedger
	withCB := xsync.VxBool("withCallback")
	var eca EvictedCallback
	var ecb EvictedCallbackOf[string, interface{}]
	if withCB {
		eca = func(k string, v interface{}) { la.add(k, v) }
		ecb = func(k string, v interface{}) { lb.add(k, v) }
	}
	a := vxNewCache(1, def, eca)
	b := vxNewCacheOf(1, def, ecb)
	k1, k2 := xsync.VxStr("k1"), xsync.VxStr("k2")
	xsync.VxAssume(k1 != k2)
	if xsync.VxBool("has1") {
		v, e := vxVal("pv1"), xsync.VxI64("pe1")
		xsync.VxAssume(e >= 0)
		vxPut(a, k1, v, e)
		vxPutOf(b, k1, v, e)
	}
	if xsync.VxBool("has2") {
		v, e := vxVal("pv2"), xsync.VxI64("pe2")
		xsync.VxAssume(e >= 0)
		vxPut(a, k2, v, e)
		vxPutOf(b, k2, v, e)
	}
	k := xsync.VxStr("k")
	nv := vxVal("nv")
	d := time.Duration(xsync.VxI64("d"))
	del := xsync.VxBool("del")
	xsync.VxReach("pre-state built")
	switch op {
	case opSet:
		a.Set(k, nv, d)
		b.Set(k, nv, d)
	case opSetDefault:
		a.SetDefault(k, nv)
		b.SetDefault(k, nv)
	case opSetForever:
		a.SetForever(k, nv)
		b.SetForever(k, nv)
	case opGet:
		va, oka := a.Get(k)
		vb, okb := b.Get(k)
		xsync.VxObserve("ok", oka)
		xsync.VxAssert(va == vb && oka == okb, "twins: Get")
	case opGetWithExpiration:
		va, ta, oka := a.GetWithExpiration(k)
		vb, tb, okb := b.GetWithExpiration(k)
		xsync.VxAssert(va == vb && oka == okb, "twins: GetWithExpiration value/ok")
		xsync.VxAssert(xsync.VxTimeIsZero(ta) == xsync.VxTimeIsZero(tb) && xsync.VxTimeNano(ta) == xsync.VxTimeNano(tb), "twins: GetWithExpiration instant")
	case opGetWithTTL:
		va, ta, oka := a.GetWithTTL(k)
		vb, tb, okb := b.GetWithTTL(k)
		xsync.VxAssert(va == vb && oka == okb && ta == tb, "twins: GetWithTTL")
	case opGetOrSet:
		va, oka := a.GetOrSet(k, nv, d)
		vb, okb := b.GetOrSet(k, nv, d)
		xsync.VxObserve("ok", oka)
		xsync.VxAssert(va == vb && oka == okb, "twins: GetOrSet")
	case opGetAndSet:
		va, oka := a.GetAndSet(k, nv, d)
		vb, okb := b.GetAndSet(k, nv, d)
		xsync.VxObserve("ok", oka)
		xsync.VxAssert(va == vb && oka == okb, "twins: GetAndSet")
	case opGetAndRefresh:
		va, oka := a.GetAndRefresh(k, d)
		vb, okb := b.GetAndRefresh(k, d)
		xsync.VxObserve("ok", oka)
		xsync.VxAssert(va == vb && oka == okb, "twins: GetAndRefresh")
	case opGetOrCompute:
		ca, cb := 0, 0
		va, oka := a.GetOrCompute(k, func() interface{} { ca++; return nv }, d)
		vb, okb := b.GetOrCompute(k, func() interface{} { cb++; return nv }, d)
		xsync.VxObserve("ok", oka)
		xsync.VxAssert(va == vb && oka == okb && ca == cb, "twins: GetOrCompute")
	case opCompute:
		var oa, ob interface{}
		var la2, lb2 bool
		va, oka := a.Compute(k, func(old interface{}, loaded bool) (interface{}, bool) { oa, la2 = old, loaded; return nv, del }, d)
		vb, okb := b.Compute(k, func(old interface{}, loaded bool) (interface{}, bool) { ob, lb2 = old, loaded; return nv, del }, d)
		xsync.VxObserve("ok", oka)
		xsync.VxAssert(va == vb && oka == okb, "twins: Compute result")
		xsync.VxAssert(oa == ob && la2 == lb2, "twins: Compute fn arguments")
	case opGetAndDelete:
		va, oka := a.GetAndDelete(k)
		vb, okb := b.GetAndDelete(k)
		xsync.VxObserve("ok", oka)
		xsync.VxAssert(va == vb && oka == okb, "twins: GetAndDelete")
	case opDelete:
		a.Delete(k)
		b.Delete(k)
	case opDeleteExpired:
		a.DeleteExpired()
		b.DeleteExpired()
	case opClear:
		a.Clear()
		b.Clear()
	}
	xsync.VxAssert(a.Count() == b.Count(), "twins: Count")
	xsync.VxAssert(la.n == lb.n, "twins: number of evicted callbacks")
	xsync.VxAssert(la.has(k1, nil) == lb.has(k1, nil) && la.has(k, nv) == lb.has(k, nv), "twins: callback ledger")
	for i := 0; i < 2; i++ {
		if i < la.n {
			xsync.VxAssert(la.k[i] == lb.k[i] && la.v[i] == lb.v[i], "twins: callback arguments")
		}
	}
	kk := [3]string{k1, k2, k}
	for i := 0; i < 3; i++ {
		va, ea, oka := vxPeek(a, kk[i])
		vb, eb, okb := vxPeekOf(b, kk[i])
		xsync.VxAssert(oka == okb, "twins: stored keys")
		if oka && okb {
			xsync.VxAssert(va == vb && ea == eb, "twins: stored (value, expiry)")
		}
	}
	// read-only views of the two post-states
	ia, ib := a.Items(), b.Items()
	xsync.VxAssert(len(ia) == len(ib), "twins: Items size")
	for i := 0; i < 3; i++ {
		va, oka := ia[kk[i]]
		vb, okb := ib[kk[i]]
		xsync.VxAssert(oka == okb && va == vb, "twins: Items content")
	}
	na, nb := 0, 0
	a.Range(func(string, interface{}) bool { na++; return true })
	b.Range(func(string, interface{}) bool { nb++; return true })
	xsync.VxAssert(na == nb, "twins: Range visits")
	xsync.VxReach("end")
}

// ---------------------------------------------------------------- C06: callback ledger, sequential

// VxH_C06_seq: Delete / GetAndDelete / DeleteExpired from a two-entry
// pre-state with a callback installed at construction or swapped later.
func VxH_C06_seq(op int) {
	now := xsync.VxI64("now")
	xsync.VxAssume(now >= 0 && now < 1<<62)
	xsync.VxClockSet(now)
	var l0, l1 vxLedger
	cb0 := func(k string, v interface{}) { l0.add(k, v) }
	cb1 := func(k string, v interface{}) { l1.add(k, v) }
	mode := xsync.VxChoice("cbmode", 4) // 0: nil; 1: cb0 at construction; 2: nil then cb1; 3: cb0 then cb1
	var c *xsyncMap
	if mode == 1 || mode == 3 {
		c = vxNewCache(1, NoExpiration, cb0)
	} else {
		c = vxNewCache(1, NoExpiration, nil)
	}
	k1, k2 := xsync.VxStr("k1"), xsync.VxStr("k2")
	xsync.VxAssume(k1 != k2)
	has1, has2 := xsync.VxBool("has1"), xsync.VxBool("has2")
	v1, v2 := xsync.VxInt("v1"), xsync.VxInt("v2")
	e1, e2 := xsync.VxI64("e1"), xsync.VxI64("e2")
	xsync.VxAssume(e1 >= 0 && e2 >= 0 && v1 != v2)
	if has1 {
		vxPut(c, k1, v1, e1)
	}
	if has2 {
		vxPut(c, k2, v2, e2)
	}
	if mode >= 2 {
		c.SetEvictedCallback(cb1)
	}
	inForce := &l0
	other := &l1
	if mode >= 2 {
		inForce, other = &l1, &l0
	}
	k := xsync.VxStr("k")
	before := c.Count()
	xsync.VxReach("pre-state built")
	x1 := e1 > 0 && now > e1
	x2 := e2 > 0 && now > e2
	switch op {
	case opDelete, opGetAndDelete:
		if op == opDelete {
			c.Delete(k)
		} else {
			c.GetAndDelete(k)
		}
		removed1 := has1 && k == k1
		removed2 := has2 && k == k2
		want := 0
		if removed1 || removed2 {
			want = 1
		}
		xsync.VxAssert(before-c.Count() == want, "Delete/GetAndDelete removes exactly the addressed entry")
		if mode == 0 {
			xsync.VxAssert(l0.n == 0 && l1.n == 0, "no callback installed: nothing fires")
		} else {
			xsync.VxAssert(inForce.n == want && other.n == 0, "removal fires the callback in force exactly once, nothing else fires")
			if removed1 {
				xsync.VxAssert(inForce.has(k1, v1) == 1, "callback receives the removed key with its very value (k1)")
			}
			if removed2 {
				xsync.VxAssert(inForce.has(k2, v2) == 1, "callback receives the removed key with its very value (k2)")
			}
		}
	case opDeleteExpired:
		c.DeleteExpired()
		want := 0
		if has1 && x1 {
			want++
		}
		if has2 && x2 {
			want++
		}
		xsync.VxAssert(before-c.Count() == want, "DeleteExpired removes exactly the expired entries")
		if mode == 0 {
			xsync.VxAssert(l0.n == 0 && l1.n == 0, "no callback installed: nothing fires")
		} else {
			xsync.VxAssert(inForce.n == want && other.n == 0, "each removed entry fires the callback in force exactly once")
			if has1 && x1 {
				xsync.VxAssert(inForce.has(k1, v1) == 1, "expired k1 reported with its value")
			}
			if has2 && x2 {
				xsync.VxAssert(inForce.has(k2, v2) == 1, "expired k2 reported with its value")
			}
			if has1 && !x1 {
				xsync.VxAssert(inForce.has(k1, v1) == 0, "live k1 not reported")
			}
		}
		_, _, ok1 := vxPeek(c, k1)
		xsync.VxAssert(ok1 == (has1 && !x1), "DeleteExpired keeps exactly the unexpired entries")
	}
	xsync.VxObserve("fired", inForce.n)
	xsync.VxReach("end")
}

// ---------------------------------------------------------------- C07: cache Range / Items

// VxH_C07_cacheRange: Range and Items over three entries of free expiry.
func VxH_C07_cacheRange(useItems int) {
	now := xsync.VxI64("now")
	xsync.VxAssume(now >= 0 && now < 1<<62)
	xsync.VxClockSet(now)
	c := vxNewCache(1, NoExpiration, nil)
	var ks [3]string
	var vs [3]int
	var es [3]int64
	var has [3]bool
	for i := 0; i < 3; i++ {
		ks[i], vs[i], es[i], has[i] = xsync.VxStr("k"), xsync.VxInt("v"), xsync.VxI64("e"), xsync.VxBool("has")
		xsync.VxAssume(es[i] >= 0)
		for j := 0; j < i; j++ {
			xsync.VxAssume(ks[j] != ks[i])
		}
		if has[i] {
			vxPut(c, ks[i], vs[i], es[i])
		}
	}
	live := 0
	for i := 0; i < 3; i++ {
		if has[i] && !(es[i] > 0 && now > es[i]) {
			live++
		}
	}
	xsync.VxReach("pre-state built")
	if useItems == 1 {
		m := c.Items()
		xsync.VxAssert(len(m) == live, "Items: exactly the unexpired entries")
		for i := 0; i < 3; i++ {
			v, ok := m[ks[i]]
			isLive := has[i] && !(es[i] > 0 && now > es[i])
			xsync.VxAssert(ok == isLive, "Items: key present iff live")
			if isLive {
				xsync.VxAssert(v == interface{}(vs[i]), "Items: value is the stored one")
			}
		}
		xsync.VxObserve("n", len(m))
		return
	}
	if useItems == 2 {
		c.Range(nil) // ignored
		xsync.VxAssert(c.Count() == c.Count(), "Range(nil) returns")
		return
	}
	var seen [3]int
	visits := 0
	stopAt := xsync.VxInt("stopAt")
	c.Range(func(k string, v interface{}) bool {
		visits++
		hit := false
		for i := 0; i < 3; i++ {
			if has[i] && ks[i] == k {
				hit = true
				seen[i]++
				xsync.VxAssert(v == interface{}(vs[i]), "Range: value is the one stored under that key")
				xsync.VxAssert(!(es[i] > 0 && now > es[i]), "Range: never an expired entry")
			}
		}
		xsync.VxAssert(hit, "Range: never a phantom key")
		return visits != stopAt
	})
	xsync.VxObserve("visits", visits)
	for i := 0; i < 3; i++ {
		xsync.VxAssert(seen[i] <= 1, "Range: each key at most once")
	}
	if stopAt >= 1 && stopAt <= live {
		xsync.VxAssert(visits == stopAt, "Range: stops immediately when the visitor returns false")
	} else {
		xsync.VxAssert(visits == live, "Range: visits every live entry exactly once")
	}
}

// ---------------------------------------------------------------- C13(iii): re-entrancy

// VxH_C13_reenter: the evicted callback and the Range visitor call back into
// the same cache; every call must return with all locks free.
func VxH_C13_reenter(which int) {
	now := xsync.VxI64("now")
	xsync.VxAssume(now >= 0 && now < 1<<62)
	xsync.VxClockSet(now)
	var c *xsyncMap
	inner := xsync.VxChoice("inner", 4)
	calls := 0
	cb := func(k string, v interface{}) {
		calls++
		switch inner {
		case 0:
			c.Get(k)
		case 1:
			c.Set(k, v, NoExpiration)
		case 2:
			c.Delete(k)
		case 3:
			c.DeleteExpired()
		}
	}
	c = vxNewCache(1, NoExpiration, nil)
	k1, k2 := xsync.VxStr("k1"), xsync.VxStr("k2")
	xsync.VxAssume(k1 != k2)
	e1 := xsync.VxI64("e1")
	xsync.VxAssume(e1 >= 0)
	vxPut(c, k1, 1, e1)
	if xsync.VxBool("has2") {
		vxPut(c, k2, 2, 0)
	}
	c.SetEvictedCallback(func(k string, v interface{}) {
		if calls < 2 {
			cb(k, v)
		}
	})
	xsync.VxReach("pre-state built")
	switch which {
	case 0:
		c.Delete(k1)
	case 1:
		c.GetAndDelete(k1)
	case 2:
		c.DeleteExpired()
	case 3:
		n := 0
		c.Range(func(k string, v interface{}) bool {
			n++
			if n <= 2 {
				cb(k, v)
			}
			return true
		})
	}
	xsync.VxObserve("calls", calls)
	xsync.VxAssert(vxQuiescent(c), "after the call every internal lock is free and no resize is pending")
	xsync.VxReach("end")
}
