//go:build go1.21

package xsync

import "math"

// C10(b): the DEFAULT hasher. The body of defaultHasher[K] is executed
// (reflect.TypeOf/Elem/Kind on statically known types, the reinterpretation of
// an interface variable as {typ, word}); runtime.typehash is modelled by its
// contract: "p addresses a value of type t; equal values hash equally". A short
// history from the empty map is compared with builtin-map semantics (==).

func vxFloatKeyGen(name string) float64 {
	switch VxChoice(name, 3) {
	case 0:
		return 0
	case 1:
		return math.Copysign(0, -1)
	}
	return 1.5
}

func vxAnyKeyGen(name string) any {
	switch VxChoice(name, 5) {
	case 0:
		return nil
	case 1:
		return VxInt(name + ".i")
	case 2:
		return VxStr(name + ".s")
	case 3:
		return &vxPtrCells[0]
	}
	return vxPadKeyGen(name + ".p")
}

func vxDefaultHist[K comparable](kgen func(string) K) {
	m := VxNewMapOf[K, int](1, 1, defaultHasher[K]())
	k1, k2 := kgen("k1"), kgen("k2")
	m.Store(k1, 1)
	m.Store(k2, 2)
	// memory a key merely points to changes
	if VxBool("mutate") {
		vxPtrCells[0] = VxInt("pointee")
	}
	k := kgen("k")
	VxReach("stored")
	v, ok := m.Load(k)
	VxObserve("ok", ok)
	switch {
	case k == k2:
		VxAssert(ok && v == 2, "default hasher: Load finds the entry stored under an == key (latest value)")
	case k == k1:
		VxAssert(ok && v == 1, "default hasher: Load finds the entry stored under an == key")
	default:
		VxAssert(!ok, "default hasher: keys that are != do not alias")
	}
	want := 2
	if k1 == k2 {
		want = 1
	}
	VxAssert(m.Size() == want, "default hasher: == keys share one entry")
	m.Delete(k1)
	_, ok1 := m.Load(k1)
	VxAssert(!ok1, "default hasher: Delete removes the entry of an == key")
	VxReach("end")
}

// VxH_C10_default: kind selects the key type.
func VxH_C10_default(kind int) {
	switch kind {
	case 0:
		vxDefaultHist[int](vxIntKey)
	case 1:
		vxDefaultHist[string](vxStrKey)
	case 2:
		vxDefaultHist[float64](vxFloatKeyGen)
	case 3:
		vxDefaultHist[vxPadKey](vxPadKeyGen)
	case 4:
		vxDefaultHist[*int](vxPtrKeyGen)
	case 5:
		vxDefaultHist[any](vxAnyKeyGen)
	}
}
