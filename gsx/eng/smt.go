package eng

import (
	"bufio"
	"sort"
	"fmt"
	"io"
	"os/exec"
	"strconv"
	"strings"
	"time"
)

// Solver is one persistent SMT-LIB2 solver process. Term definitions are sent
// once at the base level (define-fun per DAG node); queries use push/pop.
type Solver struct {
	Name    string
	cmd     *exec.Cmd
	in      io.WriteCloser
	out     *bufio.Reader
	u       *Univ
	defined map[int]bool
	funs    map[string]bool
	depth   int
	pending []*Term // definitions requested while inside a push: re-sent after pop
	Queries int
	Time    time.Duration
	Log     io.Writer
	buf     strings.Builder
	TimeoutMs int
	lines   chan string
	dead    bool
	Restarts int
	Grace    time.Duration
}

func solverArgv(name string, timeoutMs int) []string {
	switch name {
	case "z3":
		return []string{"z3", "-in", "-smt2", fmt.Sprintf("-t:%d", timeoutMs)}
	case "z3-new":
		return []string{"z3-new", "-in", "-smt2", fmt.Sprintf("-t:%d", timeoutMs)}
	case "cvc5":
		return []string{"cvc5", "--incremental", "--lang=smt2", "--produce-models", fmt.Sprintf("--tlimit-per=%d", timeoutMs)}
	}
	panic("unknown solver " + name)
}

func NewSolver(u *Univ, name string, timeoutMs int) (*Solver, error) {
	s := &Solver{Name: name, u: u, defined: map[int]bool{}, funs: map[string]bool{}, TimeoutMs: timeoutMs}
	if err := s.start(); err != nil {
		return nil, err
	}
	return s, nil
}

func (s *Solver) start() error {
	argv := solverArgv(s.Name, s.TimeoutMs)
	cmd := exec.Command(argv[0], argv[1:]...)
	in, err := cmd.StdinPipe()
	if err != nil {
		return err
	}
	outp, err := cmd.StdoutPipe()
	if err != nil {
		return err
	}
	cmd.Stderr = cmd.Stdout
	if err := cmd.Start(); err != nil {
		return err
	}
	s.cmd, s.in = cmd, in
	s.out = bufio.NewReaderSize(outp, 1<<20)
	s.dead = false
	lines := make(chan string, 1024)
	s.lines = lines
	rd := s.out
	go func() {
		for {
			l, err := rd.ReadString('\n')
			if l != "" {
				lines <- strings.TrimSpace(l)
			}
			if err != nil {
				close(lines)
				return
			}
		}
	}()
	return nil
}

// kill terminates a stuck solver process; the next query starts a new one.
func (s *Solver) kill() {
	if s.cmd != nil {
		s.in.Close()
		s.cmd.Process.Kill()
		s.cmd.Wait()
		s.cmd = nil
	}
	s.dead = true
}

func (s *Solver) Close() {
	if s == nil || s.cmd == nil {
		return
	}
	s.in.Close()
	s.cmd.Process.Kill()
	s.cmd.Wait()
	s.cmd = nil
}

func (s *Solver) send(txt string) {
	if s.Log != nil {
		io.WriteString(s.Log, txt)
	}
	if s.dead || s.cmd == nil {
		if err := s.start(); err != nil {
			return
		}
		s.Restarts++
	}
	io.WriteString(s.in, txt)
}

func sortStr(w int) string {
	if w == 0 {
		return "Bool"
	}
	return fmt.Sprintf("(_ BitVec %d)", w)
}

func constStr(t *Term) string {
	if t.W == 0 {
		if t.Val == 1 {
			return "true"
		}
		return "false"
	}
	if t.W%4 == 0 {
		return fmt.Sprintf("#x%0*x", t.W/4, t.Val)
	}
	return fmt.Sprintf("#b%0*b", t.W, t.Val)
}

func ref(t *Term) string {
	if t.Op == OConst {
		return constStr(t)
	}
	return "n" + strconv.Itoa(t.ID)
}

// emitCone sends definitions for every term reachable from roots (children
// first; term IDs are topologically ordered by construction).
func (s *Solver) emitCone(roots []*Term) {
	seen := map[int]bool{}
	var list []*Term
	stack := append([]*Term(nil), roots...)
	for len(stack) > 0 {
		t := stack[len(stack)-1]
		stack = stack[:len(stack)-1]
		if t.Op == OConst || seen[t.ID] {
			continue
		}
		seen[t.ID] = true
		list = append(list, t)
		stack = append(stack, t.Args...)
	}
	sort.Slice(list, func(i, j int) bool { return list[i].ID < list[j].ID })
	s.defined = seen
	s.funs = map[string]bool{}
	var sb strings.Builder
	for _, t := range list {
		s.emitTo(&sb, t)
		if sb.Len() > 1<<16 {
			s.send(sb.String())
			sb.Reset()
		}
	}
	s.send(sb.String())
}

func (s *Solver) emitTo(b *strings.Builder, t *Term) {
	switch t.Op {
	case OVar:
		fmt.Fprintf(b, "(declare-const n%d %s)\n", t.ID, sortStr(t.W))
		return
	case OApp:
		if !s.funs[t.Name] {
			s.funs[t.Name] = true
			fd := s.u.Funs[t.Name]
			var as []string
			for _, w := range fd.Args {
				as = append(as, sortStr(w))
			}
			fmt.Fprintf(b, "(declare-fun %s (%s) %s)\n", t.Name, strings.Join(as, " "), sortStr(fd.Ret))
		}
	}
	fmt.Fprintf(b, "(define-fun n%d () %s ", t.ID, sortStr(t.W))
	switch t.Op {
	case OApp:
		fmt.Fprintf(b, "(%s", t.Name)
		for _, a := range t.Args {
			b.WriteString(" " + ref(a))
		}
		b.WriteString(")")
	case OExtract:
		fmt.Fprintf(b, "((_ extract %d %d) %s)", t.X, t.Y, ref(t.Args[0]))
	case OZext:
		fmt.Fprintf(b, "((_ zero_extend %d) %s)", t.W-t.Args[0].W, ref(t.Args[0]))
	case OSext:
		fmt.Fprintf(b, "((_ sign_extend %d) %s)", t.W-t.Args[0].W, ref(t.Args[0]))
	default:
		n, ok := opNames[t.Op]
		if !ok {
			panic(fmt.Sprintf("emit: op %d", t.Op))
		}
		b.WriteString("(" + n)
		for _, a := range t.Args {
			b.WriteString(" " + ref(a))
		}
		b.WriteString(")")
	}
	b.WriteString(")\n")
}

// Query decides the conjunction of asserts in a fresh (non-incremental)
// solver context: z3's incremental core is orders of magnitude slower on these
// QF_UFBV formulas than its tactic-based solver, so every query is
// (reset) + cone of influence + one check-sat inside one long-lived process.
func (s *Solver) Query(asserts []*Term) (Result, string) {
	for _, a := range asserts {
		if a.IsFalse() {
			s.Queries++
			return Unsat, "trivial"
		}
	}
	if s.Name == "cvc5" {
		s.send(fmt.Sprintf("(reset)\n(set-option :produce-models true)\n(set-option :tlimit-per %d)\n(set-logic QF_UFBV)\n", s.TimeoutMs))
	} else {
		// (reset) also resets the command-line timeout: set it again
		s.send(fmt.Sprintf("(reset)\n(set-option :produce-models true)\n(set-option :timeout %d)\n", s.TimeoutMs))
	}
	s.emitCone(asserts)
	var sb strings.Builder
	for _, a := range asserts {
		if a.IsTrue() {
			continue
		}
		sb.WriteString("(assert " + ref(a) + ")\n")
	}
	s.send(sb.String())
	return s.Check()
}

type Result int

const (
	Unsat Result = iota
	Sat
	Unknown
)

func (r Result) String() string { return [...]string{"unsat", "sat", "unknown"}[r] }

// readLine waits for one output line; the deadline is enforced on this side
// too, because a solver stuck in preprocessing ignores its own soft timeout.
func (s *Solver) readLine() (string, error) {
	if s.dead {
		return "", fmt.Errorf("solver not running")
	}
	d := time.Duration(s.TimeoutMs)*time.Millisecond + s.Grace
	if s.Grace == 0 {
		d = time.Duration(s.TimeoutMs)*time.Millisecond*2 + 5*time.Second
	}
	select {
	case l, ok := <-s.lines:
		if !ok {
			s.dead = true
			return "", fmt.Errorf("solver exited")
		}
		return l, nil
	case <-time.After(d):
		s.kill()
		return "", fmt.Errorf("hard timeout after %v", d)
	}
}

// Check runs check-sat. Any "(error" line makes the result Unknown.
func (s *Solver) Check() (Result, string) {
	t0 := time.Now()
	s.send("(check-sat)\n(echo \"<<done>>\")\n")
	res := Unknown
	note := ""
	sawErr := false
	for {
		l, err := s.readLine()
		if err != nil {
			s.Queries++
			s.Time += time.Since(t0)
			return Unknown, "solver: " + err.Error()
		}
		if l == "<<done>>" || l == "\"<<done>>\"" {
			break
		}
		switch {
		case l == "sat":
			res = Sat
		case l == "unsat":
			res = Unsat
		case l == "unknown" || l == "timeout":
			res = Unknown
			note = l
		case strings.HasPrefix(l, "(error"):
			sawErr = true
			note = l
		case l != "":
			note = l
		}
	}
	s.Queries++
	s.Time += time.Since(t0)
	if sawErr {
		return Unknown, note
	}
	return res, note
}

// Values fetches model values for the given terms (after a Sat answer).
func (s *Solver) Values(ts []*Term) (map[*Term]uint64, error) {
	out := map[*Term]uint64{}
	const chunk = 200
	for i := 0; i < len(ts); i += chunk {
		j := i + chunk
		if j > len(ts) {
			j = len(ts)
		}
		var sb strings.Builder
		sb.WriteString("(get-value (")
		n := 0
		var ask []*Term
		for _, t := range ts[i:j] {
			if t.Op == OConst {
				out[t] = t.Val
				continue
			}
			if !s.defined[t.ID] {
				// never sent to the solver: unconstrained, any value works
				out[t] = 0
				continue
			}
			sb.WriteString(" " + ref(t))
			ask = append(ask, t)
			n++
		}
		if n == 0 {
			continue
		}
		sb.WriteString("))\n(echo \"<<done>>\")\n")
		s.send(sb.String())
		var all strings.Builder
		for {
			l, err := s.readLine()
			if err != nil {
				return nil, err
			}
			if l == "<<done>>" || l == "\"<<done>>\"" {
				break
			}
			all.WriteString(l)
			all.WriteString(" ")
		}
		txt := all.String()
		if strings.Contains(txt, "(error") {
			return nil, fmt.Errorf("get-value: %s", txt)
		}
		// parse "((n12 #x00ff) (n13 true) ...)"
		toks := tokenize(txt)
		k := 0
		for p := 0; p < len(toks) && k < len(ask); p++ {
			if strings.HasPrefix(toks[p], "n") && p+1 < len(toks) {
				if id, err := strconv.Atoi(toks[p][1:]); err == nil && id == ask[k].ID {
					v, used, err := parseVal(toks[p+1:])
					if err != nil {
						return nil, fmt.Errorf("parse %q: %v", toks[p+1], err)
					}
					out[ask[k]] = v
					k++
					p += used
				}
			}
		}
		if k != len(ask) {
			return nil, fmt.Errorf("get-value: parsed %d of %d values from %q", k, len(ask), txt)
		}
	}
	return out, nil
}

func tokenize(s string) []string {
	var toks []string
	cur := strings.Builder{}
	flush := func() {
		if cur.Len() > 0 {
			toks = append(toks, cur.String())
			cur.Reset()
		}
	}
	for _, r := range s {
		switch r {
		case '(', ')':
			flush()
			toks = append(toks, string(r))
		case ' ', '\t', '\n', '\r':
			flush()
		default:
			cur.WriteRune(r)
		}
	}
	flush()
	return toks
}

func parseVal(toks []string) (uint64, int, error) {
	t := toks[0]
	switch {
	case t == "true":
		return 1, 1, nil
	case t == "false":
		return 0, 1, nil
	case strings.HasPrefix(t, "#x"):
		v, err := strconv.ParseUint(t[2:], 16, 64)
		return v, 1, err
	case strings.HasPrefix(t, "#b"):
		v, err := strconv.ParseUint(t[2:], 2, 64)
		return v, 1, err
	case t == "(" && len(toks) >= 4 && toks[1] == "_" && strings.HasPrefix(toks[2], "bv"):
		v, err := strconv.ParseUint(toks[2][2:], 10, 64)
		return v, 5, err
	}
	return 0, 0, fmt.Errorf("unrecognised value token %q", t)
}
