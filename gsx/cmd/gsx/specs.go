package main

import (
	"fmt"
	"strings"

	"gsx/eng"
)

var cacheOps = []string{"Set", "SetDefault", "SetForever", "Get", "GetWithExpiration", "GetWithTTL", "GetOrSet", "GetAndSet",
	"GetAndRefresh", "GetOrCompute", "Compute", "GetAndDelete", "Delete", "DeleteExpired", "Clear"}

var commonStubs = []string{
	"stub: xsync.hashString = uninterpreted function of (string id, seed), with hashString(\"\", seed) = seed (every hash function, incl. fully colliding ones)",
	"stub: runtime_fastrand = arbitrary uint32 (table seeds are free variables); makeSeed's retry loop pruned to its first non-zero draw",
	"stub: time.Now/Until/Since read a virtual clock variable; time.Time abstracted to (isZero, unixNano)",
	"stub: sync/atomic.* = sequentially consistent single-step accesses; atomic.Value = one interface cell",
	"stub: strings are abstract 16-bit ids (only == and \"\" are observed by the code under test)",
}

func init() {
	register(&PropSpec{
		ID:        "C01",
		Technique: "bounded symbolic execution of go/ssa to QF_UFBV (z3): one inductive step per Cache method from an arbitrary 2-entry pre-state, symbolic clock/TTL, vs. reference TTL map; counterexamples replayed natively",
		Bounds:    map[string]interface{}{"keys": 3, "pre_state_entries": 2, "table_len": 1, "ops_per_step": 1, "clock": "[0,2^62)", "unwind_default": 4},
		Stubs:     commonStubs,
		Outside:   []string{"more than 2 stored entries per step", "clock beyond 2^62 ns", "tables longer than 1 bucket in this harness (bucket layout independence is C11)"},
		Quick: func() []eng.Instance {
			var is []eng.Instance
			for i, n := range cacheOps {
				is = append(is, eng.Instance{Name: fmt.Sprintf("C01/Cache/step/%s", n), Pkg: "cache", Func: "VxH_C01_step", Args: []int64{int64(i)}})
			}
			return withOf(is)
		},
		Thorough: func() []eng.Instance {
			var is []eng.Instance
			for i, n := range cacheOps {
				is = append(is, eng.Instance{Name: fmt.Sprintf("C01/Cache/step/%s", n), Pkg: "cache", Func: "VxH_C01_step", Args: []int64{int64(i)}})
			}
			// two-call histories from the empty cache: storing call, clock advance, any call (symbolic selector)
			for _, first := range []int{0, 1, 6, 7, 9, 10} {
				for second := range cacheOps {
					is = append(is, eng.Instance{Name: fmt.Sprintf("C01/Cache/hist2/%s;%s", cacheOps[first], cacheOps[second]), Pkg: "cache", Func: "VxH_C01_hist2",
						Args: []int64{int64(first), int64(second)}, Cfg: eng.Config{DefaultUnwind: 6, NoResizeCall: map[int]bool{0: true, 1: true}}})
				}
			}
			return withOf(is)
		},
	})
}

func init() {
	register(&PropSpec{
		ID:        "selftest",
		Technique: "engine self-test",
		Quick: func() []eng.Instance {
			return []eng.Instance{
				{Name: "selftest/loops", Pkg: "xsync", Func: "VxH_T_loops", Cfg: eng.Config{DefaultUnwind: 8}},
			}
		},
	})
}

func init() {
	register(&PropSpec{
		ID:        "dbg",
		Technique: "debug",
		Quick: func() []eng.Instance {
			return []eng.Instance{
				{Name: "dbg/Map/Store", Pkg: "xsync", Func: "VxH_Map_step", Args: []int64{1, 1, 1, 1, 0}, Cfg: eng.Config{DefaultUnwind: 8}},
			}
		},
	})
}

var mapOps = []string{"Load", "Store", "LoadOrStore", "LoadAndStore", "LoadOrCompute", "Compute", "LoadAndDelete", "Delete", "Clear", "Range", "Size"}

type shape struct{ tableLen, chain, minLen, mode int }

func mapStepInstances(prefix, fn string, shapes []shape, ops []int) []eng.Instance {
	var is []eng.Instance
	for _, sh := range shapes {
		for _, op := range ops {
			is = append(is, eng.Instance{
				Name: fmt.Sprintf("%s/S(len=%d,chain=%d,min=%d,mode=%d)/%s", prefix, sh.tableLen, sh.chain, sh.minLen, sh.mode, mapOps[op]),
				Pkg:  "xsync", Func: fn, Args: []int64{int64(op), int64(sh.tableLen), int64(sh.chain), int64(sh.minLen), 0},
				Cfg: eng.Config{DefaultUnwind: 8, NoResizeCall: noResize(sh.mode)},
			})
		}
	}
	return is
}

func init() {
	_ = 0
	register(&PropSpec{
		ID:        "C11",
		Technique: "bounded symbolic execution of go/ssa to QF_UFBV: inductive step of every Map/MapOf operation from an arbitrary valid table state (all slot occupancies, hashes, seeds), incl. grow/shrink/Clear inside the step; representation invariant re-established; vs reference map",
		Bounds:    map[string]interface{}{"shapes(tableLen,chain,minTableLen)": "(1,1,1) (2,1,1) (1,2,1)", "ops_per_step": 1, "unwind_doCompute": 3, "unwind_default": 8},
		Stubs:     commonStubs,
		Outside:   []string{"tables longer than 2 buckets before / 4 after the step", "chains longer than 2 buckets in the pre-state of API steps (3 for the direct resize steps)", "size hints (constructor arithmetic) - separate harness"},
		Quick:    func() []eng.Instance { return c11Instances(false) },
		Thorough: func() []eng.Instance { return c11Instances(true) },
	})
}

func init() {
	register(&PropSpec{
		ID:        "dbgpar",
		Technique: "debug",
		Quick: func() []eng.Instance {
			is := []eng.Instance{
				{Name: "dbgpar/step/MapOf/grow/chain3", Pkg: "xsync", Func: "VxH_MapOf_resizeStep", Args: []int64{0, 1, 3, 1, 1}, Cfg: eng.Config{DefaultUnwind: 8}},
				{Name: "dbgpar/step/MapOf/shrink/chain2", Pkg: "xsync", Func: "VxH_MapOf_resizeStep", Args: []int64{1, 2, 2, 1, 1}, Cfg: eng.Config{DefaultUnwind: 8}},
				{Name: "dbgpar/step/Map/grow/chain3", Pkg: "xsync", Func: "VxH_Map_resizeStep", Args: []int64{0, 1, 3, 1}, Cfg: eng.Config{DefaultUnwind: 8}},
				{Name: "dbgpar/step/Map/shrink/chain2", Pkg: "xsync", Func: "VxH_Map_resizeStep", Args: []int64{1, 2, 2, 1}, Cfg: eng.Config{DefaultUnwind: 8}},
			}
			is = append(is, resizeParO("dbgpar/r3of/MapOf", true, 0, []int{5}, 1, 0, 3, 1)...)
			is = append(is, resizeParO("dbgpar/r3of/Map", false, 0, []int{5}, 1, 0, 3, 1)...)
			is = append(is, resizeParO("dbgpar/of1/MapOf", true, 1, []int{1, 7}, 2, 1, 2, 1)...)
			is = append(is, resizeParO("dbgpar/of1/MapOf", true, 0, []int{0, 2, 5, 6, 7, 8}, 1, 1, 2, 1)...)
			is = append(is, resizeParO("dbgpar/of1/Map", false, 0, []int{0, 1, 5, 7, 8}, 1, 1, 2, 1)...)
			is = append(is, resizeParO("dbgpar/of1/Map", false, 1, []int{1}, 2, 0, 2, 1)...)
			is = append(is, resizeParO("dbgpar/Map", false, 0, []int{1}, 1, 0, 2, 1)...)
			is = append(is, resizeParO("dbgpar/MapOf", true, 0, []int{1}, 1, 1, 2, 1)...)
			is = append(is, resizePar("dbgpar/MapOf", true, 0, []int{0, 1, 2, 5, 6, 7}, 1, 1, 2)...)
			is = append(is, resizePar("dbgpar/MapOf", true, 1, []int{1, 7}, 2, 1, 2)...)
			is = append(is, resizePar("dbgpar/Map", false, 0, []int{0, 1, 5, 7}, 1, 1, 2)...)
			is = append(is, resizePar("dbgpar/Map", false, 1, []int{1}, 2, 0, 2)...)
			is = append(is, resizePar("dbgpar/MapOf/r3", true, 0, []int{5}, 1, 0, 3)...)
			is = append(is, resizePar("dbgpar/clr/MapOf", true, 0, []int{8}, 1, 1, 2)...)
			is = append(is, resizePar("dbgpar/clr/Map", false, 0, []int{8}, 1, 1, 2)...)
			return is
		},
	})
}

func cacheOpInstances(prefix, fn string, ops []string) []eng.Instance {
	var is []eng.Instance
	for _, n := range ops {
		idx := -1
		for i, c := range cacheOps {
			if c == n {
				idx = i
			}
		}
		is = append(is, eng.Instance{Name: prefix + "/" + n, Pkg: "cache", Func: fn, Args: []int64{int64(idx)}, Cfg: eng.Config{DefaultUnwind: 9}})
	}
	return is
}

func init() {
	register(&PropSpec{
		ID:        "C12",
		Technique: "differential bounded symbolic execution (go/ssa -> QF_UFBV): both twins executed in one formula on shared symbolic inputs, every observable compared",
		Bounds:    map[string]interface{}{"pre_state_entries": 2, "keys": 3, "table_len": 1, "ops_per_step": 1},
		Stubs:     commonStubs,
		Outside:   []string{"constructor variants (covered by C09 harness)", "histories longer than one call from an arbitrary common pre-state"},
		Quick: func() []eng.Instance {
			return cacheOpInstances("C12/Cache~CacheOf/step", "VxH_C12_twin", cacheOps)
		},
	})
	register(&PropSpec{
		ID:        "C06",
		Technique: "bounded symbolic execution (go/ssa -> QF_UFBV): ledger of evicted-callback invocations vs. the entries actually removed, callback installed at construction or swapped; concurrent pairs with symbolic schedule",
		Bounds:    map[string]interface{}{"entries": 2, "callback_modes": 4},
		Stubs:     commonStubs,
		Quick: func() []eng.Instance {
			return withOf(cacheOpInstances("C06/Cache/seq", "VxH_C06_seq", []string{"Delete", "GetAndDelete", "DeleteExpired"}))
		},
		Thorough: func() []eng.Instance {
			is := withOf(cacheOpInstances("C06/Cache/seq", "VxH_C06_seq", []string{"Delete", "GetAndDelete", "DeleteExpired"}))
			// concurrent removals: the ledger must be that of a linearization (second assertion of the C02 harness), 3 rounds
			is = append(is, withOf(cachePar2R("C06/Cache/par2", [][2]string{
				{"DeleteExpired", "DeleteExpired"}, {"DeleteExpired", "Delete"}, {"DeleteExpired", "GetAndDelete"}, {"DeleteExpired", "Set"},
				{"GetAndDelete", "GetAndDelete"}, {"Delete", "Set"}, {"GetAndDelete", "Compute"},
			}, 0, 3))...)
			return is
		},
	})
	register(&PropSpec{
		ID:        "C07",
		Technique: "bounded symbolic execution (go/ssa -> QF_UFBV): Range/Items visit sequence vs. abstract content from arbitrary valid table states; cache-level expiry filter with symbolic clock",
		Stubs:     commonStubs,
		Quick: func() []eng.Instance {
			is := []eng.Instance{
				{Name: "C07/Cache/Range", Pkg: "cache", Func: "VxH_C07_cacheRange", Args: []int64{0}, Cfg: eng.Config{DefaultUnwind: 6}},
				{Name: "C07/Cache/Items", Pkg: "cache", Func: "VxH_C07_cacheRange", Args: []int64{1}, Cfg: eng.Config{DefaultUnwind: 6}},
				{Name: "C07/Cache/RangeNil", Pkg: "cache", Func: "VxH_C07_cacheRange", Args: []int64{2}, Cfg: eng.Config{DefaultUnwind: 6}},
			}
			is = append(is, eng.Instance{Name: "C07/Cache/Items||Set", Pkg: "cache", Func: "VxH_C07_itemsPar", Cfg: eng.Config{DefaultUnwind: 4, Rounds: 2}})
			is = withOf(is)
			is = append(is, mapStepInstances("C07/Map/Range", "VxH_Map_step", []shape{{1, 1, 1, 0}, {2, 1, 1, 1}, {1, 2, 1, 1}}, []int{9})...)
			// MapOf: 3 symbolic slots; a chain of three buckets with one symbolic slot each (empty middle bucket included)
			is = append(is, mapOfStepInstances("C07/MapOf[int,int]/Range", "VxH_MapOfII_step", [][5]int{{1, 1, 1, 3, 0}, {1, 3, 1, 1, 0}}, []int{9})...)
			// traversal concurrent with one writer (symbolic schedule)
			is = append(is, c07par()...)
			return is
		},
		Thorough: func() []eng.Instance {
			is := []eng.Instance{
				{Name: "C07/Cache/Range", Pkg: "cache", Func: "VxH_C07_cacheRange", Args: []int64{0}, Cfg: eng.Config{DefaultUnwind: 6}},
				{Name: "C07/Cache/Items", Pkg: "cache", Func: "VxH_C07_cacheRange", Args: []int64{1}, Cfg: eng.Config{DefaultUnwind: 6}},
				{Name: "C07/Cache/RangeNil", Pkg: "cache", Func: "VxH_C07_cacheRange", Args: []int64{2}, Cfg: eng.Config{DefaultUnwind: 6}},
			}
			is = withOf(is)
			is = append(is, mapStepInstances("C07/Map/Range", "VxH_Map_step", []shape{{1, 1, 1, 0}, {2, 1, 1, 1}, {1, 2, 1, 1}, {2, 2, 2, 1}}, []int{9})...)
			is = append(is, mapOfStepInstances("C07/MapOf[int,int]/Range", "VxH_MapOfII_step", [][5]int{{1, 1, 1, 5, 0}, {2, 1, 2, 2, 2}, {1, 2, 1, 2, 0}}, []int{9})...)
			is = append(is, mapOfStepInstances("C07/MapOf[string,any]/Range", "VxH_MapOfSA_step", [][5]int{{1, 1, 1, 3, 0}}, []int{9})...)
			return is
		},
	})
	register(&PropSpec{
		ID:        "C13",
		Technique: "bounded symbolic execution (go/ssa -> QF_UFBV): lock/flag freedom on every return path, unwinding assertions on every loop, re-entrant callbacks; deadlock query over symbolic schedules",
		Stubs:     commonStubs,
		Quick: func() []eng.Instance {
			var is []eng.Instance
			for i, n := range []string{"Delete", "GetAndDelete", "DeleteExpired", "Range"} {
				is = append(is, eng.Instance{Name: "C13/Cache/reenter/" + n, Pkg: "cache", Func: "VxH_C13_reenter", Args: []int64{int64(i)}, Cfg: eng.Config{DefaultUnwind: 9}})
			}
			var out []eng.Instance
			for _, in := range withOf(is) {
				if in.Name == "C13/CacheOf/reenter/Range" {
					continue // nested MapOf.Range inside a re-entrant visitor: formula too large (stated in DESIGN.md)
				}
				out = append(out, in)
			}
			// nobody is left waiting for a resize that has finished: a call that meets a grow in progress (waitForResize / wake-up, deadlock query)
			out = append(out, resizePar("C13/Map", false, 0, []int{8}, 1, 1, 2)...)
			out = append(out, resizePar("C13/MapOf", true, 0, []int{8}, 1, 1, 2)...)
			return out
		},
		Thorough: func() []eng.Instance {
			var is []eng.Instance
			for i, n := range []string{"Delete", "GetAndDelete", "DeleteExpired", "Range"} {
				is = append(is, eng.Instance{Name: "C13/Cache/reenter/" + n, Pkg: "cache", Func: "VxH_C13_reenter", Args: []int64{int64(i)}, Cfg: eng.Config{DefaultUnwind: 9}})
			}
			var out []eng.Instance
			for _, in := range withOf(is) {
				if in.Name == "C13/CacheOf/reenter/Range" {
					continue
				}
				out = append(out, in)
			}
			// deadlock / lost wake-up queries: writers that meet a Clear (resize flag, resizeMu, resizeCond) and each other
			out = append(out, mapPar2("C13/Map/deadlock", "VxH_Map_par2", [][2]int{{8, 1}, {8, 7}, {8, 8}, {1, 1}}, []int64{1, 1, 1, 1}, 2)...)
			out = append(out, mapPar2("C13/MapOf/deadlock", "VxH_MapOf_par2", [][2]int{{8, 1}, {8, 7}, {8, 8}, {1, 1}, {1, 7}}, []int64{1, 1, 1, 1, 2}, 2)...)
			// a shrink that is abandoned or completed while an insert is in flight: resizing flag clear, waiters woken
			out = append(out, resizePar("C13/MapOf", true, 1, []int{1}, 2, 1, 2)...)
			out = append(out, resizePar("C13/MapOf", true, 0, []int{1}, 1, 1, 2)...)
			return out
		},
	})
}

func init() {
	register(&PropSpec{
		ID:        "C09",
		Technique: "bounded symbolic execution (go/ssa -> QF_UFBV) of the real constructors, option closures, config normalisation and every storing/reading method with all int64 TTL / default / clock values symbolic",
		Bounds:    map[string]interface{}{"calls": "constructor + optional SetDefaultExpiration + optional pre-Set + 1 method + reads", "clock": "[0,2^61) then any later instant < 2^62", "MinCapacity": "default; bound: the 32-root-bucket table the constructor asks for is built with 1 root bucket"},
		Stubs:     commonStubs,
		Outside:   []string{"symbolic MinCapacity (floating-point size arithmetic, see C11 constructors)", "instants beyond the int64 UnixNano range"},
		Quick: func() []eng.Instance {
			var is []eng.Instance
			vn := []string{"New+opts", "NewDefault", "New()", "New+opts-reordered"}
			mn := []string{"Set", "GetAndSet", "Compute", "GetAndRefresh", "GetOrSet", "GetOrCompute", "SetDefault|SetForever"}
			for v := range vn {
				for m := range mn {
					if v >= 2 && m >= 2 {
						continue
					}
					is = append(is, eng.Instance{Name: fmt.Sprintf("C09/Cache/%s/%s", vn[v], mn[m]), Pkg: "cache", Func: "VxH_C09_ctor", Args: []int64{int64(v), int64(m)}, Cfg: eng.Config{DefaultUnwind: 6, SmallTables: 1}})
				}
			}
			return withOf(is)
		},
		Thorough: func() []eng.Instance {
			var is []eng.Instance
			vn := []string{"New+opts", "NewDefault", "New()", "New+opts-reordered"}
			mn := []string{"Set", "GetAndSet", "Compute", "GetAndRefresh", "GetOrSet", "GetOrCompute", "SetDefault|SetForever"}
			for v := range vn {
				for m := range mn {
					is = append(is, eng.Instance{Name: fmt.Sprintf("C09/Cache/%s/%s", vn[v], mn[m]), Pkg: "cache", Func: "VxH_C09_ctor", Args: []int64{int64(v), int64(m)}, Cfg: eng.Config{DefaultUnwind: 6, SmallTables: 1}})
				}
			}
			return withOf(is)
		},
	})
}


// withOf adds, for every package-cache instance, its generated CacheOf[string, interface{}] twin.
func withOf(is []eng.Instance) []eng.Instance {
	out := append([]eng.Instance(nil), is...)
	for _, in := range is {
		if in.Pkg != "cache" {
			continue
		}
		t := in
		t.Func = in.Func + "Of"
		t.Name = strings.Replace(in.Name, "/Cache/", "/CacheOf/", 1)
		out = append(out, t)
	}
	return out
}


func mapOfStepInstances(prefix, fn string, sh [][5]int, ops []int) []eng.Instance {
	var is []eng.Instance
	for _, x := range sh {
		for _, op := range ops {
			cfg := eng.Config{DefaultUnwind: 8}
			tag := ""
			if x[0] > 1 || x[1] > 1 {
				// multi-bucket shapes: executions that request a grow are outside the instance
				cfg.NoResizeCall = map[int]bool{0: true}
				tag = ",nogrow"
			}
			is = append(is, eng.Instance{
				Name: fmt.Sprintf("%s/S(len=%d,chain=%d,min=%d,slots=%d|%d%s)/%s", prefix, x[0], x[1], x[2], x[3], x[4], tag, mapOps[op]),
				Pkg:  "xsync", Func: fn, Args: []int64{int64(op), int64(x[0]), int64(x[1]), int64(x[2]), int64(x[3]), int64(x[4])},
				Cfg: cfg,
			})
		}
	}
	return is
}

func c11Instances(thorough bool) []eng.Instance {
	all := []int{0, 1, 2, 3, 4, 5, 6, 7, 8, 9, 10}
	writes := []int{1, 5, 6, 7}
	var is []eng.Instance
	// Map: every operation from every state of a 1-bucket table (grow 1->2 inside the step)
	is = append(is, mapStepInstances("C11/Map/step", "VxH_Map_step", []shape{{1, 1, 1, 0}}, all)...)
	// two root buckets / two-bucket chains, operations that do not need to grow (append-bucket, shrink 2->1, delete in overflow bucket)
	is = append(is, mapStepInstances("C11/Map/step", "VxH_Map_step", []shape{{2, 1, 2, 1}, {1, 2, 1, 1}}, writes)...)
	// MapOf[int,int]: 3 symbolic slots; concretely full bucket (grow 1->2); full root bucket below the threshold (append-bucket path)
	is = append(is, mapOfStepInstances("C11/MapOf[int,int]/step", "VxH_MapOfII_step", [][5]int{{1, 1, 1, 3, 0}}, all)...)
	is = append(is, mapOfStepInstances("C11/MapOf[int,int]/step", "VxH_MapOfII_step", [][5]int{{2, 1, 2, -5, 1}}, []int{1, 2, 5})...)
	// two-bucket chain with holes: an insert into a hole of the non-tail bucket, deletes in the overflow bucket
	is = append(is, mapOfStepInstances("C11/MapOf[int,int]/step", "VxH_MapOfII_step", [][5]int{{1, 2, 1, 2, 0}}, []int{1, 5, 7})...)
	is = append(is, mapOfStepInstances("C11/MapOf[string,any]/step", "VxH_MapOfSA_step", [][5]int{{1, 1, 1, 2, 0}}, []int{0, 1, 5, 6})...)
	if thorough {
		is = append(is, mapStepInstances("C11/Map/step", "VxH_Map_step", []shape{{2, 1, 2, 1}, {1, 2, 1, 1}}, []int{0, 2, 3, 4, 8, 9, 10})...)
		// shrink 2 -> 1 inside the step
		is = append(is, mapStepInstances("C11/Map/step", "VxH_Map_step", []shape{{2, 1, 1, 1}}, []int{5, 6, 7})...)
		// grow 2 -> 4 buckets inside the step (Compute with its symbolic delete flag exceeds the 4M-node budget here)
		is = append(is, mapStepInstances("C11/Map/step", "VxH_Map_step", []shape{{2, 1, 1, 2}}, []int{1})...)
		is = append(is, mapOfStepInstances("C11/MapOf[int,int]/step", "VxH_MapOfII_step", [][5]int{{1, 1, 1, -5, 0}}, []int{1, 2, 5})...)
		is = append(is, mapOfStepInstances("C11/MapOf[int,int]/step", "VxH_MapOfII_step", [][5]int{{2, 1, 1, 2, 1}, {1, 2, 1, 2, 0}}, writes)...)
		is = append(is, mapOfStepInstances("C11/MapOf[string,any]/step", "VxH_MapOfSA_step", [][5]int{{1, 1, 1, 3, 0}}, all)...)
	}
	// one whole-table grow / shrink started directly from an arbitrary valid table:
	// chains of up to 3 buckets with holes and empty middle buckets (one symbolic slot per MapOf bucket)
	is = append(is,
		eng.Instance{Name: "C11/MapOf[int,int]/resize/grow/S(len=1,chain=3)", Pkg: "xsync", Func: "VxH_MapOf_resizeStep", Args: []int64{0, 1, 3, 1, 1}, Cfg: eng.Config{DefaultUnwind: 8}},
		eng.Instance{Name: "C11/MapOf[int,int]/resize/shrink/S(len=2,chain=2)", Pkg: "xsync", Func: "VxH_MapOf_resizeStep", Args: []int64{1, 2, 2, 1, 1}, Cfg: eng.Config{DefaultUnwind: 8}},
		eng.Instance{Name: "C11/Map/resize/grow/S(len=1,chain=3)", Pkg: "xsync", Func: "VxH_Map_resizeStep", Args: []int64{0, 1, 3, 1}, Cfg: eng.Config{DefaultUnwind: 8}},
		eng.Instance{Name: "C11/Map/resize/shrink/S(len=2,chain=2)", Pkg: "xsync", Func: "VxH_Map_resizeStep", Args: []int64{1, 2, 2, 1}, Cfg: eng.Config{DefaultUnwind: 8}},
	)
	return is
}


// noResize: mode 1 = executions that request a grow are outside the instance.
func noResize(mode int) map[int]bool {
	if mode == 1 {
		return map[int]bool{0: true}
	}
	return nil // (applied at the call, see mapStepInstances)
}

// ---------------------------------------------------------------- concurrency specs

var parOps = []int{0, 1, 2, 3, 4, 5, 6, 7} // Load Store LoadOrStore LoadAndStore LoadOrCompute Compute LoadAndDelete Delete

func parCfg(rounds int) eng.Config {
	return eng.Config{DefaultUnwind: 2, Rounds: rounds, NoResizeCall: map[int]bool{0: true, 1: true}}
}

// parCfgShrinkReq: a delete that empties a bucket may *request* a shrink (the
// request returns early on a table at its minimum size); only an actual
// rebuild is outside. Needed for delete-then-insert slot reuse.
func parCfgShrinkReq(rounds int) eng.Config {
	return eng.Config{DefaultUnwind: 2, Rounds: rounds, NoResizeCall: map[int]bool{0: true}, NoResize: map[int]bool{1: true}}
}

// resizePar: a grow (hint 0) or shrink (hint 1) of the whole table, started
// directly (m.resize, as doCompute and the delete path do), concurrent with one
// operation on an arbitrary valid table. Map: args op,hint,tableLen,mode;
// MapOf adds the number of symbolic slots per bucket.
func resizePar(prefix string, of bool, hint int, ops []int, tableLen, mode, rounds int) []eng.Instance {
	return resizeParO(prefix, of, hint, ops, tableLen, mode, rounds, 0)
}

// order 1: the operation's thread moves first in each round (op,resize,op,resize)
func resizeParO(prefix string, of bool, hint int, ops []int, tableLen, mode, rounds, order int) []eng.Instance {
	var is []eng.Instance
	hn := []string{"grow", "shrink"}[hint]
	if order == 1 {
		hn = "op-first/" + hn
	}
	for _, op := range ops {
		fn, args := "VxH_Map_resizePar", []int64{int64(op), int64(hint), int64(tableLen), int64(mode)}
		if of {
			fn, args = "VxH_MapOf_resizePar", append(args, 1)
		}
		args = append(args, int64(order))
		is = append(is, eng.Instance{Name: fmt.Sprintf("%s/%s||%s/pre%d", prefix, hn, mapOps[op], mode), Pkg: "xsync", Func: fn, Args: args,
			Cfg: eng.Config{DefaultUnwind: 3, Rounds: rounds, NoResizeCall: map[int]bool{0: true, 1: true}}})
	}
	return is
}

func stalledGrow(prefix string, of bool, mode int) []eng.Instance {
	var is []eng.Instance
	for _, r := range []int{0, 2, 10} {
		fn, args := "VxH_Map_stalledGrow", []int64{int64(r), int64(mode)}
		if of {
			fn, args = "VxH_MapOf_stalledGrow", append(args, int64(mode))
		}
		is = append(is, eng.Instance{Name: fmt.Sprintf("%s/writer=grow/reader=%s", prefix, mapOps[r]), Pkg: "xsync", Func: fn, Args: args,
			Cfg: eng.Config{DefaultUnwind: 9, Rounds: 1, NoResizeCall: map[int]bool{0: true, 1: true}}})
	}
	return is
}

func mapPar2(prefix, fn string, pairs [][2]int, extra []int64, rounds int) []eng.Instance {
	var is []eng.Instance
	for _, p := range pairs {
		args := append([]int64{int64(p[0]), int64(p[1])}, extra...)
		cfg := parCfg(rounds)
		if p[0] == 8 || p[1] == 8 {
			// pairs with Clear: a delete that empties its bucket may request a shrink (early return)
			cfg = parCfgShrinkReq(rounds)
		}
		is = append(is, eng.Instance{Name: fmt.Sprintf("%s/%s||%s", prefix, mapOps[p[0]], mapOps[p[1]]), Pkg: "xsync", Func: fn, Args: args, Cfg: cfg})
	}
	return is
}

func allPairs(ops []int) [][2]int {
	var ps [][2]int
	for i, a := range ops {
		for _, b := range ops[i:] {
			// two get-or-create / compute operations against each other: the queries do not finish
			// within the per-query limit at map level (same-key versions are C05's instances)
			if (a == 2 || a == 4 || a == 5) && (b == 2 || b == 4 || b == 5) {
				continue
			}
			ps = append(ps, [2]int{a, b})
		}
	}
	return ps
}

func init() {
	quickPairs := [][2]int{{0, 1}, {0, 5}, {0, 7}, {1, 1}, {1, 7}, {2, 7}, {3, 3}, {3, 6}, {5, 6}, {6, 6}, {6, 1}, {7, 7}}
	register(&PropSpec{
		ID:        "C03",
		Technique: "context-bounded symbolic scheduling: both goroutines' go/ssa code executed symbolically in rounds whose boundaries are free bit-vector variables (one SMT query = all interleavings within the bound); linearizability oracle vs reference map; schedules replayed natively under a cooperative scheduler",
		Bounds:    map[string]interface{}{"threads": 2, "ops_per_thread": "1 (A||B) and 1||2 (A || B1;B2)", "rounds": 2, "table": "1 root bucket, chain 1, <=1 pre-state entry", "resize": "par2/par12: executions requesting grow/shrink are outside; Clear pairs separately; resize||op: one whole-table grow 1->2 (or shrink 2->1) buckets started directly, overlapping one call, <=1 pre-state entry", "unwind": "2 (3 for resize||op)"},
		Stubs:     commonStubs,
		Outside:   []string{"more than 2 goroutines", "more than 3 context switches (2 rounds)", "a grow started from inside a Store (the request path) overlapping another call, grows of tables with more than 1 root bucket, more than 1 pre-state entry during a resize (see DESIGN.md: formula size)", "tables with more than 2 root buckets in concurrent instances"},
		Quick: func() []eng.Instance {
			is := mapPar2("C03/Map/par2", "VxH_Map_par2", quickPairs, []int64{1, 1, 1, 1}, 2)
			is = append(is,
				eng.Instance{Name: "C03/Map/par12/Load||Delete;Store", Pkg: "xsync", Func: "VxH_Map_par12", Args: []int64{0, 7, 1, 1, 1, 1, 1}, Cfg: parCfgShrinkReq(2)},
				eng.Instance{Name: "C03/Map/par12/Load||Store;Delete", Pkg: "xsync", Func: "VxH_Map_par12", Args: []int64{0, 1, 7, 1, 1, 1, 1}, Cfg: parCfgShrinkReq(2)},
			)
			// a whole-table grow 1->2 buckets overlapping one call
			is = append(is, resizePar("C03/Map", false, 0, []int{8}, 1, 1, 2)...)
			is = append(is, resizePar("C03/Map", false, 0, []int{1}, 1, 0, 2)...)
			is = append(is, resizeParO("C03/Map", false, 0, []int{1}, 1, 0, 2, 1)...) // op,resize,op,resize
			return is
		},
		Thorough: func() []eng.Instance {
			is := mapPar2("C03/Map/par2", "VxH_Map_par2", allPairs(parOps), []int64{1, 1, 1, 1}, 2)
			is = append(is, mapPar2("C03/Map/par2+Clear", "VxH_Map_par2", [][2]int{{8, 0}, {8, 1}, {8, 7}, {8, 8}}, []int64{1, 1, 1, 1}, 2)...)
			for _, t := range [][3]int{{0, 7, 1}, {0, 1, 7}, {0, 1, 1}, {6, 1, 7}} {
				is = append(is, eng.Instance{Name: fmt.Sprintf("C03/Map/par12/%s||%s;%s", mapOps[t[0]], mapOps[t[1]], mapOps[t[2]]), Pkg: "xsync", Func: "VxH_Map_par12",
					Args: []int64{int64(t[0]), int64(t[1]), int64(t[2]), 1, 1, 1, 1}, Cfg: parCfgShrinkReq(2)})
			}
			is = append(is, resizePar("C03/Map", false, 0, []int{0, 1, 7}, 1, 1, 2)...) // resize-first grow||Compute/pre1: > 60 min (queries time out, splitting), not registered
			is = append(is, resizeParO("C03/Map", false, 0, []int{0, 1, 7, 8}, 1, 1, 2, 1)...) // op-first grow||Compute/pre1: > 40 min, not registered
			// Map shrink||Store (2->1 buckets, empty table): > 40 min, not registered (MapOf's runs in C08/C13)
			return is
		},
	})
	register(&PropSpec{
		ID:        "C04",
		Technique: "context-bounded symbolic scheduling (as C03) on MapOf[int,int] with an arbitrary (uninterpreted) hasher: bucket-index and h2 collisions are inside the quantifier",
		Bounds:    map[string]interface{}{"threads": 2, "ops_per_thread": "1 and 1||2", "rounds": 2, "table": "1 root bucket, 2 symbolic slots, <=1 pre-state entry", "unwind": 2},
		Stubs:     commonStubs,
		Outside:   []string{"as C03"},
		Quick: func() []eng.Instance {
			is := mapPar2("C04/MapOf/par2", "VxH_MapOf_par2", quickPairs, []int64{1, 1, 1, 1, 2}, 2)
			is = append(is, eng.Instance{Name: "C04/MapOf/par12/Load||Delete;Store", Pkg: "xsync", Func: "VxH_MapOf_par12", Args: []int64{0, 7, 1, 1, 1, 1, 1, 2}, Cfg: parCfgShrinkReq(2)})
			// a whole-table grow 1->2 buckets overlapping one call
			is = append(is, resizePar("C04/MapOf", true, 0, []int{8, 1}, 1, 1, 2)...)
			is = append(is, resizeParO("C04/MapOf", true, 0, []int{1}, 1, 1, 2, 1)...) // op,resize,op,resize
			return is
		},
		Thorough: func() []eng.Instance {
			is := mapPar2("C04/MapOf/par2", "VxH_MapOf_par2", allPairs(parOps), []int64{1, 1, 1, 1, 2}, 2)
			is = append(is, mapPar2("C04/MapOf/par2+Clear", "VxH_MapOf_par2", [][2]int{{8, 0}, {8, 1}, {8, 7}, {8, 8}}, []int64{1, 1, 1, 1, 2}, 2)...)
			is = append(is, resizePar("C04/MapOf", true, 0, []int{0, 2, 5, 6, 7}, 1, 1, 2)...)
			is = append(is, resizeParO("C04/MapOf", true, 0, []int{0, 2, 5, 6, 7, 8}, 1, 1, 2, 1)...)
			is = append(is, resizePar("C04/MapOf", true, 1, []int{7}, 2, 1, 2)...) // shrink||Store runs in the C08 and C13 thorough tiers
			return is
		},
	})
}

func cachePar2(prefix string, pairs [][2]string, sameKey int) []eng.Instance {
	return cachePar2R(prefix, pairs, sameKey, 2)
}

func cachePar2R(prefix string, pairs [][2]string, sameKey, rounds int) []eng.Instance {
	idx := func(n string) int64 {
		for i, c := range cacheOps {
			if c == n {
				return int64(i)
			}
		}
		panic(n)
	}
	var is []eng.Instance
	for _, p := range pairs {
		is = append(is, eng.Instance{Name: fmt.Sprintf("%s/%s||%s", prefix, p[0], p[1]), Pkg: "cache", Func: "VxH_C02_par2",
			Args: []int64{idx(p[0]), idx(p[1]), int64(sameKey), 1}, Cfg: eng.Config{DefaultUnwind: 4, Rounds: rounds}})
	}
	return is
}

func init() {
	register(&PropSpec{
		ID:        "C02",
		Technique: "context-bounded symbolic scheduling of two Cache/CacheOf calls on the real stack (cache layer + real xsync map, frozen symbolic clock, entries live/expired/absent); linearizability oracle vs the TTL-map reference",
		Bounds:    map[string]interface{}{"threads": 2, "ops_per_thread": 1, "rounds": "2 (quick), 3 (thorough)", "map": "atomic specification behind the items interface (seam)", "pre_state_entries": 1},
		Stubs:     commonStubs,
		Outside:   []string{"more than 2 goroutines / 1 call each", "more than 3 context switches", "clock advancing during the concurrent phase", "table resizes during the calls"},
		Quick: func() []eng.Instance {
			return withOf(cachePar2("C02/Cache/par2", [][2]string{
				{"DeleteExpired", "Set"}, {"DeleteExpired", "GetAndSet"}, {"DeleteExpired", "GetOrSet"}, {"Get", "Set"}, {"Get", "GetAndSet"},
				{"GetAndRefresh", "Delete"}, {"GetAndRefresh", "Set"}, {"Set", "Set"}, {"GetOrSet", "Delete"}, {"Compute", "GetAndDelete"},
			}, 0))
		},
		Thorough: func() []eng.Instance {
			ops := []string{"Set", "Get", "GetOrSet", "GetAndSet", "GetAndRefresh", "GetOrCompute", "Compute", "GetAndDelete", "Delete", "DeleteExpired", "Clear"}
			var r3, r2 [][2]string
			for i, a := range ops {
				for _, b := range ops[i:] {
					if a == "DeleteExpired" || b == "DeleteExpired" {
						r2 = append(r2, [2]string{a, b})
					} else {
						r3 = append(r3, [2]string{a, b})
					}
				}
			}
			is := withOf(cachePar2R("C02/Cache/par2", r3, 0, 3))
			is = append(is, withOf(cachePar2R("C02/Cache/par2", r2, 0, 2))...)
			return is
		},
	})
	register(&PropSpec{
		ID:        "C05",
		Technique: "context-bounded symbolic scheduling of two racers on ONE key (map level and cache level) with ghost counters in the user functions; oracle: results, loaded flags and call counts are those of a sequential order",
		Bounds:    map[string]interface{}{"racers": 2, "rounds": 2, "key": "absent, live or expired-uncleaned"},
		Stubs:     commonStubs,
		Outside:   []string{"more than 2 racers", "a grow between a caller's first attempt and its retry (sequentially covered by C11 steps with grow inside)"},
		Quick: func() []eng.Instance {
			is := mapPar2("C05/Map/race", "VxH_Map_par2", [][2]int{{5, 5}, {3, 3}}, []int64{1, 1, 1, 11}, 2)
			is = append(is, mapPar2("C05/MapOf/race", "VxH_MapOf_par2", [][2]int{{2, 2}, {4, 4}, {5, 5}}, []int64{1, 1, 1, 11, 2}, 2)...)
			is = append(is, withOf(cachePar2("C05/Cache/race", [][2]string{{"GetOrCompute", "GetOrCompute"}, {"GetOrSet", "GetOrSet"}, {"Compute", "Compute"}, {"GetAndSet", "GetAndRefresh"}}, 1))...)
			return is
		},
		Thorough: func() []eng.Instance {
			// Map-level get-or-create racers: the lock-free snapshot loop of Map.Load makes these the largest formulas
			// (Map-level LoadOrStore / LoadOrCompute racers do not finish reliably within the per-query limit: the lock-free
			// snapshot loop of Map.Load on both sides; their MapOf twins and the cache-level racers are the instances that ran clean)
			is := mapPar2("C05/Map/race", "VxH_Map_par2", [][2]int{{5, 5}, {3, 3}}, []int64{1, 1, 1, 11}, 2)
			is = append(is, mapPar2("C05/MapOf/race", "VxH_MapOf_par2", [][2]int{{2, 2}, {4, 4}, {5, 5}, {3, 3}}, []int64{1, 1, 1, 11, 2}, 2)...)
			is = append(is, withOf(cachePar2R("C05/Cache/race", [][2]string{{"GetOrCompute", "GetOrCompute"}, {"GetOrSet", "GetOrSet"}, {"Compute", "Compute"}, {"GetAndSet", "GetAndRefresh"}, {"GetOrCompute", "Set"}, {"GetAndRefresh", "GetAndRefresh"}}, 1, 3))...)
			return is
		},
	})
}

func init() {
	stalled := func(prefix, fn string, extra []int64) []eng.Instance {
		var is []eng.Instance
		writers := []int{1, 5, 7, 4, 8} // Store Compute Delete LoadOrCompute Clear
		readers := []int{0, 2, 10}      // Load, LoadOrStore (hit), Size
		for _, w := range writers {
			for _, r := range readers {
				if w == 8 && r == 2 {
					continue // after Clear no key is present: the LoadOrStore hit path does not exist
				}
				args := append([]int64{int64(w), int64(r)}, extra...)
				is = append(is, eng.Instance{Name: fmt.Sprintf("%s/writer=%s/reader=%s", prefix, mapOps[w], mapOps[r]), Pkg: "xsync", Func: fn, Args: args,
					Cfg: eng.Config{DefaultUnwind: 9, Rounds: 1, NoResizeCall: map[int]bool{0: true, 1: true}}})
			}
		}
		return is
	}
	register(&PropSpec{
		ID:        "C16",
		Technique: "bounded symbolic execution with a symbolic stall point: the writer's go/ssa code runs a free-length prefix of its visible operations (incl. a yield inside its user function, i.e. while holding the bucket lock), then the reader runs alone; any disabled blocking operation or spin of the reader is a violation; result must be the value before or after the writer's operation",
		Bounds:    map[string]interface{}{"writer_prefix": "any number of visible operations (symbolic)", "table": "1 root bucket, <=2 pre-state entries", "readers": "Load, LoadOrStore hit path, Size", "unwind": 3},
		Stubs:     commonStubs,
		Outside:   []string{"writers stalled in the middle of a shrink copy (a stalled grow 1->2 buckets and Clear are included)", "tables with more than 1 root bucket"},
		Quick: func() []eng.Instance {
			is := stalled("C16/Map", "VxH_Map_stalled", []int64{1, 1, 1, 2})
			is = append(is, stalled("C16/MapOf", "VxH_MapOf_stalled", []int64{1, 1, 1, 2, 2})...)
			// keys that live in an overflow bucket of the chain (holes allowed: one symbolic slot per bucket)
			is = append(is, stalled("C16/Map(chain2)", "VxH_Map_stalled", []int64{1, 2, 1, 2})...)
			is = append(is, stalled("C16/MapOf(chain2)", "VxH_MapOf_stalled", []int64{1, 2, 1, 2, 1})...)
			// a grow stalled anywhere between its CAS on the resizing flag and the publication of the new table
			is = append(is, stalledGrow("C16/Map", false, 2)...)
			is = append(is, stalledGrow("C16/MapOf", true, 2)...)
			// cache level on the real stack
			idx := func(n string) int64 {
				for i, c := range cacheOps {
					if c == n {
						return int64(i)
					}
				}
				panic(n)
			}
			var cs []eng.Instance
			for _, w := range []string{"GetOrCompute", "Compute", "Set", "Delete"} {
				for _, r := range []string{"Get", "GetWithTTL", "GetWithExpiration", "Clear"} {
					rn := r
					if r == "Clear" {
						rn = "Count"
					}
					cs = append(cs, eng.Instance{Name: fmt.Sprintf("C16/Cache/writer=%s/reader=%s", w, rn), Pkg: "cache", Func: "VxH_C16_cache",
						Args: []int64{idx(w), idx(r)}, Cfg: eng.Config{DefaultUnwind: 9, Rounds: 1, NoResizeCall: map[int]bool{0: true, 1: true}}})
				}
			}
			is = append(is, withOf(cs)...)
			return is
		},
		Thorough: func() []eng.Instance {
			is := stalled("C16/Map", "VxH_Map_stalled", []int64{1, 1, 1, 3})
			is = append(is, stalled("C16/Map(chain2)", "VxH_Map_stalled", []int64{1, 2, 1, 3})...)
			is = append(is, stalled("C16/MapOf", "VxH_MapOf_stalled", []int64{1, 1, 1, 3, 3})...)
			is = append(is, stalled("C16/MapOf(chain2)", "VxH_MapOf_stalled", []int64{1, 2, 1, 3, 2})...)
			is = append(is, stalledGrow("C16/Map", false, 3)...)
			is = append(is, stalledGrow("C16/MapOf", true, 3)...)
			return is
		},
	})
}

func init() {
	register(&PropSpec{
		ID:        "C08",
		Technique: "bounded symbolic execution: the striped-counter sum is part of the representation invariant re-established by every Map/MapOf step (incl. grow recount and Clear); cache Count vs physically stored entries after every operation; quiescent Size after two-thread runs with symbolic schedules (insert || delete of one key)",
		Bounds:    map[string]interface{}{"sequential": "as C11 shapes", "concurrent": "2 goroutines, 1 op each, <=3 context switches, 1 root bucket"},
		Stubs:     commonStubs,
		Outside:   []string{"writers overlapping a table copy other than one whole-table grow 1->2 / shrink 2->1 buckets with <=1 pre-state entry (thorough tier)"},
		Quick: func() []eng.Instance {
			var is []eng.Instance
			for _, n := range []string{"Set", "Get", "GetOrSet", "GetAndRefresh", "Compute", "GetAndDelete", "DeleteExpired", "Clear"} {
				for i, c := range cacheOps {
					if c == n {
						is = append(is, eng.Instance{Name: "C08/Cache/count/" + n, Pkg: "cache", Func: "VxH_C08_count", Args: []int64{int64(i)}, Cfg: eng.Config{DefaultUnwind: 9}})
					}
				}
			}
			is = withOf(is)
			is = append(is, mapStepInstances("C08/Map/step", "VxH_Map_step", []shape{{1, 1, 1, 0}}, []int{1, 5, 7, 8, 10})...)
			is = append(is, mapOfStepInstances("C08/MapOf[int,int]/step", "VxH_MapOfII_step", [][5]int{{1, 1, 1, 3, 0}}, []int{1, 5, 7, 8, 10})...)
			is = append(is, mapPar2("C08/Map/par2", "VxH_Map_par2", [][2]int{{1, 7}, {6, 1}}, []int64{1, 1, 1, 11}, 2)...)
			// a delete / insert whose counter update races with a Clear (fresh table)
			is = append(is, mapPar2("C08/Map/par2+Clear", "VxH_Map_par2", [][2]int{{8, 7}, {8, 1}}, []int64{1, 1, 1, 1}, 2)...)
			is = append(is, mapPar2("C08/MapOf/par2+Clear", "VxH_MapOf_par2", [][2]int{{8, 7}}, []int64{1, 1, 1, 1, 2}, 2)...)
			is = append(is, mapPar2("C08/MapOf/par2", "VxH_MapOf_par2", [][2]int{{1, 7}}, []int64{1, 1, 1, 11, 2}, 2)...)
			return is
		},
		Thorough: func() []eng.Instance {
			// quiescent Size after an insert/delete that overlaps a whole-table grow or shrink (recount vs in-flight writer)
			is := resizePar("C08/MapOf", true, 1, []int{1, 7}, 2, 1, 2)
			is = append(is, resizePar("C08/MapOf", true, 0, []int{1, 7}, 1, 1, 2)...)
			is = append(is, resizePar("C08/Map", false, 0, []int{1}, 1, 0, 2)...)
			return is
		},
	})
	register(&PropSpec{
		ID:        "C10",
		Technique: "bounded symbolic execution of MapOf[K,int] steps for key types of several comparable kinds under an uninterpreted hasher that respects == (any collision pattern incl. total): two keys address the same entry iff Go == says so",
		Bounds:    map[string]interface{}{"key_types": "struct{int8;int64} (padding), nested struct with string/array fields, bool, int8, *int (incl. nil), string; default hasher: int, string, float64 (+0,-0,1.5), padded struct, *int, any holding nil/int/string/*int/struct", "table": "1 root bucket, 2-3 symbolic slots", "default_hasher_history": "Store,Store,(pointee change),Load,Size,Delete,Load"},
		Stubs:     commonStubs,
		Outside:   []string{"what runtime.typehash itself computes (modelled by its contract: p must address a value of type t; equal values hash equally)", "key types outside the catalogue", "NaN keys"},
		Quick: func() []eng.Instance {
			var is []eng.Instance
			kinds := []string{"struct{int8;int64}", "nested-struct", "bool", "int8", "*int", "string"}
			for k, kn := range kinds {
				for _, op := range []int{0, 1, 5, 6} {
					slots := 2
					is = append(is, eng.Instance{Name: fmt.Sprintf("C10/MapOf[%s]/step/%s", kn, mapOps[op]), Pkg: "xsync", Func: "VxH_C10_step",
						Args: []int64{int64(k), int64(op), int64(slots)}, Cfg: eng.Config{DefaultUnwind: 8}})
				}
			}
			is = append(is, eng.Instance{Name: "C10/MapOf[*int]/pointee-change", Pkg: "xsync", Func: "VxH_C10_pointee", Cfg: eng.Config{DefaultUnwind: 8}})
			is = append(is, c10default()...)
			return is
		},
		Thorough: func() []eng.Instance {
			var is []eng.Instance
			kinds := []string{"struct{int8;int64}", "nested-struct", "bool", "int8", "*int", "string"}
			for k, kn := range kinds {
				for _, op := range []int{0, 1, 2, 3, 4, 5, 6, 7, 9} {
					is = append(is, eng.Instance{Name: fmt.Sprintf("C10/MapOf[%s]/step/%s", kn, mapOps[op]), Pkg: "xsync", Func: "VxH_C10_step",
						Args: []int64{int64(k), int64(op), 3}, Cfg: eng.Config{DefaultUnwind: 8}})
				}
			}
			is = append(is, eng.Instance{Name: "C10/MapOf[*int]/pointee-change", Pkg: "xsync", Func: "VxH_C10_pointee", Cfg: eng.Config{DefaultUnwind: 8}})
			is = append(is, c10default()...)
			return is
		},
	})
}

func raceCfg() eng.Config {
	return eng.Config{DefaultUnwind: 2, Rounds: 2, Race: true, NoResizeCall: map[int]bool{0: true, 1: true}}
}

func init() {
	register(&PropSpec{
		ID:        "C14",
		Race:      true,
		Technique: "symbolic data-race query: every heap access of both goroutines' go/ssa code is recorded with its scheduling group; the solver is asked for a schedule (free round boundaries) and inputs under which two conflicting accesses, at least one of them plain, are adjacent; counterexamples are confirmed by the Go race detector on a natively parallel run",
		Bounds:    map[string]interface{}{"threads": 2, "ops_per_thread": 1, "rounds": 2, "table": "1 root bucket (map level)", "adjacency": "at the three round boundaries of the A1 B1 A2 B2 schedule"},
		Stubs:     commonStubs,
		Outside:   []string{"more than 2 goroutines", "races that need more than 3 context switches to reach", "resizes concurrent with the calls", "the janitor goroutine (its body is DeleteExpired, covered as a caller)"},
		Quick: func() []eng.Instance {
			var is []eng.Instance
			for _, p := range [][2]int{{0, 1}, {0, 7}, {0, 5}, {1, 7}, {10, 1}, {9, 1}, {9, 7}} {
				is = append(is, eng.Instance{Name: fmt.Sprintf("C14/Map/race/%s||%s", mapOps[p[0]], mapOps[p[1]]), Pkg: "xsync", Func: "VxH_Map_race",
					Args: []int64{int64(p[0]), int64(p[1]), 1, 1, 1, 1}, Cfg: raceCfg()})
				is = append(is, eng.Instance{Name: fmt.Sprintf("C14/MapOf/race/%s||%s", mapOps[p[0]], mapOps[p[1]]), Pkg: "xsync", Func: "VxH_MapOf_race",
					Args: []int64{int64(p[0]), int64(p[1]), 1, 1, 1, 1, 2, 0}, Cfg: raceCfg()})
			}
			is = append(is, eng.Instance{Name: "C14/Map/publish", Pkg: "xsync", Func: "VxH_Map_publish", Args: []int64{1}, Cfg: raceCfg()})
			// overflow-bucket append racing with the lock-free reader (full root bucket, table below the grow threshold)
			is = append(is, eng.Instance{Name: "C14/MapOf/race/Load||Store(full bucket)", Pkg: "xsync", Func: "VxH_MapOf_race",
				Args: []int64{0, 1, 2, 1, 2, 19, -5, 0}, Cfg: eng.Config{DefaultUnwind: 6, Rounds: 2, Race: true, NoResizeCall: map[int]bool{0: true, 1: true}}})
			var cs []eng.Instance
			names := []string{"SetDefaultExpiration", "SetEvictedCallback", "Set(default)", "GetAndDelete", "DeleteExpired", "DefaultExpiration()", "EvictedCallback()", "Get"}
			for _, p := range [][2]int{{0, 2}, {0, 5}, {0, 0}, {1, 3}, {1, 4}, {1, 6}, {1, 1}} {
				cs = append(cs, eng.Instance{Name: fmt.Sprintf("C14/Cache/settings/%s||%s", names[p[0]], names[p[1]]), Pkg: "cache", Func: "VxH_C14_settings",
					Args: []int64{int64(p[0]), int64(p[1])}, Cfg: eng.Config{DefaultUnwind: 4, Rounds: 2, Race: true}})
			}
			is = append(is, withOf(cs)...)
			return is
		},
	})
}

func c07par() []eng.Instance {
	var is []eng.Instance
	for _, op := range []int{1, 7, 5, 3} {
		is = append(is, eng.Instance{Name: fmt.Sprintf("C07/Map/Range||%s", mapOps[op]), Pkg: "xsync", Func: "VxH_Map_rangePar",
			Args: []int64{int64(op), 1, 1, 1, 2}, Cfg: eng.Config{DefaultUnwind: 4, Rounds: 2, NoResizeCall: map[int]bool{0: true, 1: true}}})
	}
	return is
}


// c10default: the real body of defaultHasher[K] with runtime.typehash modelled by its contract.
func c10default() []eng.Instance {
	var is []eng.Instance
	for k, kn := range []string{"int", "string", "float64(+0,-0,1.5)", "struct{int8;int64}", "*int", "any(nil,int,string,*int,struct)"} {
		is = append(is, eng.Instance{Name: fmt.Sprintf("C10/default-hasher/MapOf[%s]/history", kn), Pkg: "xsync", Func: "VxH_C10_default", Args: []int64{int64(k)},
			Cfg: eng.Config{DefaultUnwind: 6, RealHasher: true, NoResizeCall: map[int]bool{0: true, 1: true}}})
	}
	return is
}


func init() {
	register(&PropSpec{
		ID:        "C15",
		Level:     "other",
		Technique: "bounded symbolic execution of the real constructors and of the janitor goroutine's body run as a call (select = free choice among enabled cases), plus reachability over the symbolic heap",
		Explain: "Restricted claim. Decided by the solver on the real code: (1) a janitor goroutine is started iff the normalised cleanup interval is > 0, for New+options, NewDefault and New() and all int64 interval values, and its ticker is created with exactly that interval; " +
			"(2) the goroutine body executed for one tick removes the expired entry, keeps the live one and fires the evicted callback - with no user call; (3) a finalizer is registered on the object handed to the user, that object is not reachable from anything the goroutine holds " +
			"(closure bindings, followed through every pointer of the symbolic heap), and running the finalizer closes the channel the goroutine selects on. NOT decided (behaviour of the Go runtime, outside any encoding of this code): that ticks arrive within a bounded number of intervals of real time, " +
			"that the garbage collector runs the finalizer once the object is unreachable, goroutine counts after GC. Native replays use the model's values for the structural facts (spawn count, reachability, finalizer, closed channel), so for this property the replay confirms only the functional part (what one janitor pass removes and reports).",
		Bounds:  map[string]interface{}{"constructors": "New+options, NewDefault, New()", "interval": "all int64 values", "janitor_iterations": 1, "entries": 2},
		Stubs:   commonStubs,
		Outside: []string{"timer delivery and garbage collection (Go runtime)", "more than one janitor pass"},
		Quick: func() []eng.Instance {
			var is []eng.Instance
			for v, n := range []string{"New+opts", "NewDefault", "New()"} {
				is = append(is, eng.Instance{Name: "C15/Cache/janitor/" + n, Pkg: "cache", Func: "VxH_C15_janitor", Args: []int64{int64(v)}, Cfg: eng.Config{DefaultUnwind: 9}})
			}
			return withOf(is)
		},
	})
}
