//go:build go1.21

package cache

import (
	"sync"
	"time"

	"github.com/fufuok/cache/internal/xsync"
)

// vxSeam is the atomic specification of a linearizable map[string]V behind the
// interface-typed `items` field of the cache: every operation is one critical
// section of a single mutex (so a Compute, including its user function, is
// atomic with respect to every other map operation - what the bucket lock of
// the real map provides and C03/C04/C05 establish). Range reads groups of
// entries atomically and calls the visitor outside the lock, like the real
// per-bucket traversal; the grouping is a free choice.
type vxSeam[V any] struct {
	mu sync.Mutex
	k  [3]string
	v  [3]V
	ok [3]bool
}

func (m *vxSeam[V]) find(key string) int {
	r := -1
	for i := 0; i < 3; i++ {
		if m.ok[i] && m.k[i] == key {
			r = i
		}
	}
	return r
}

func (m *vxSeam[V]) put(key string, v V) {
	i := m.find(key)
	if i < 0 {
		for j := 2; j >= 0; j-- {
			if !m.ok[j] {
				i = j
			}
		}
	}
	xsync.VxAssume(i >= 0) // capacity bound of the model: at most 3 keys in play
	for j := 0; j < 3; j++ {
		if j == i {
			m.k[j], m.v[j], m.ok[j] = key, v, true
		}
	}
}

func (m *vxSeam[V]) get(key string) (V, bool) {
	var v V
	found := false
	for i := 0; i < 3; i++ {
		if m.ok[i] && m.k[i] == key {
			v, found = m.v[i], true
		}
	}
	return v, found
}

func (m *vxSeam[V]) del(key string) {
	for i := 0; i < 3; i++ {
		if m.ok[i] && m.k[i] == key {
			m.ok[i] = false
		}
	}
}

func (m *vxSeam[V]) Load(key string) (V, bool) {
	m.mu.Lock()
	v, ok := m.get(key)
	m.mu.Unlock()
	return v, ok
}

func (m *vxSeam[V]) Store(key string, value V) {
	m.mu.Lock()
	m.put(key, value)
	m.mu.Unlock()
}

func (m *vxSeam[V]) LoadOrStore(key string, value V) (V, bool) {
	m.mu.Lock()
	v, ok := m.get(key)
	if !ok {
		m.put(key, value)
		v = value
	}
	m.mu.Unlock()
	return v, ok
}

func (m *vxSeam[V]) LoadAndStore(key string, value V) (V, bool) {
	m.mu.Lock()
	v, ok := m.get(key)
	m.put(key, value)
	if !ok {
		v = value
	}
	m.mu.Unlock()
	return v, ok
}

func (m *vxSeam[V]) LoadOrCompute(key string, valueFn func() V) (V, bool) {
	m.mu.Lock()
	v, ok := m.get(key)
	if !ok {
		v = valueFn()
		m.put(key, v)
	}
	m.mu.Unlock()
	return v, ok
}

func (m *vxSeam[V]) Compute(key string, valueFn func(oldValue V, loaded bool) (newValue V, delete bool)) (V, bool) {
	m.mu.Lock()
	old, ok := m.get(key)
	nv, del := valueFn(old, ok)
	if del {
		m.del(key)
		m.mu.Unlock()
		return old, false
	}
	m.put(key, nv)
	m.mu.Unlock()
	return nv, true
}

func (m *vxSeam[V]) LoadAndDelete(key string) (V, bool) {
	m.mu.Lock()
	v, ok := m.get(key)
	m.del(key)
	m.mu.Unlock()
	return v, ok
}

func (m *vxSeam[V]) Delete(key string) {
	m.mu.Lock()
	m.del(key)
	m.mu.Unlock()
}

func (m *vxSeam[V]) Range(f func(key string, value V) bool) {
	together := xsync.VxBool("seam.range.oneBucket")
	if together {
		m.mu.Lock()
		k, v, ok := m.k, m.v, m.ok
		m.mu.Unlock()
		for i := 0; i < 3; i++ {
			if ok[i] {
				if !f(k[i], v[i]) {
					return
				}
			}
		}
		return
	}
	for i := 0; i < 3; i++ {
		m.mu.Lock()
		k, v, ok := m.k[i], m.v[i], m.ok[i]
		m.mu.Unlock()
		if ok {
			if !f(k, v) {
				return
			}
		}
	}
}

func (m *vxSeam[V]) Clear() {
	m.mu.Lock()
	for i := 0; i < 3; i++ {
		m.ok[i] = false
	}
	m.mu.Unlock()
}

func (m *vxSeam[V]) Size() int {
	m.mu.Lock()
	n := 0
	for i := 0; i < 3; i++ {
		if m.ok[i] {
			n++
		}
	}
	m.mu.Unlock()
	return n
}

var (
	_ Map                                     = (*vxSeam[interface{}])(nil)
	_ MapOf[string, itemOf[interface{}]] = (*vxSeam[itemOf[interface{}]])(nil)
)

func vxNewSeamCache(defExp time.Duration, ec EvictedCallback) *xsyncMap {
	c := newXsyncMap(Config{CleanupInterval: 0}).(*xsyncMapWrapper).xsyncMap
	c.items = &vxSeam[interface{}]{}
	c.SetDefaultExpiration(defExp)
	c.SetEvictedCallback(ec)
	return c
}

func vxNewSeamCacheOf(defExp time.Duration, ec EvictedCallbackOf[string, interface{}]) *xsyncMapOf[string, interface{}] {
	c := newXsyncMapOf[string, interface{}](ConfigOf[string, interface{}]{CleanupInterval: 0}).(*xsyncMapOfWrapper[string, interface{}]).xsyncMapOf
	c.items = &vxSeam[itemOf[interface{}]]{}
	c.SetDefaultExpiration(defExp)
	c.SetEvictedCallback(ec)
	return c
}
