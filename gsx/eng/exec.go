package eng

import (
	"fmt"
	"time"
	"go/constant"
	"go/token"
	"go/types"
	"math"
	"sort"
	"strings"

	"golang.org/x/tools/go/ssa"
)

// Oblig is a proof obligation: Cond is the *violation* condition (must be unsat
// together with the assumptions).
type Oblig struct {
	Kind string // assert | panic | unwind | nil | bounds | typeassert | unlock ...
	NoFinish bool // decided without assuming that every thread finished (deadlock queries)
	Cond *Term
	Msg  string
	Pos  string
}

type ReachW struct {
	Label string
	Cond  *Term
}

type StreamEnt struct {
	G   *Term
	T   *Term
	Thr int
}

type Obs struct {
	Name string
	G    *Term
	V    Value
	Thr  int
}

type Config struct {
	DefaultUnwind int
	Unwind        map[string]int  // "pkg.Func#headerIndex" or "pkg.Func" -> bound
	AssumeLoops   map[string]bool // loops whose unwinding failure is pruned by assumption (spin loops)
	Rounds        int
	VisAll        bool // every heap access is a scheduling point (race mode)
	RealHasher    bool // execute the body of xsync.defaultHasher (runtime.typehash modelled by its contract) instead of stubbing it
	Race          bool // record heap accesses inside VxPar and emit the data-race obligation
	NoResizeCall  map[int]bool // resize hints whose request (call of resize) is excluded from this instance by assumption
	NoResize      map[int]bool // resize hints (0 grow, 1 shrink, 2 clear) excluded from this instance by assumption
	SmallTables   int  // >0: constructors build tables of this many root buckets instead of 32
	MaxDepth      int
	Trace         bool
}

type Exec struct {
	U    *Univ
	Prog *ssa.Program
	lay  layoutCache
	TR   TypeReg
	Cfg  Config

	cells []Value
	cellT []types.Type
	objs  []Obj
	globs map[*ssa.Global]int

	Assumes   []*Term
	AssumeTxt []string
	Obligs    []Oblig
	Reach     []ReachW
	Streams   map[string][]StreamEnt
	StreamOrd []string
	Observes  []Obs

	strIDs   map[string]int
	strByID  map[int]string
	instrIDs map[ssa.Instruction]int
	instrKeys map[ssa.Instruction]string
	fnInfos  map[*ssa.Function]*fnInfo

	FuncsEncoded map[string]string // name -> position
	NInstr       int
	depth        int

	clock     *Term // virtual time (int64 ns) returned by time.Now
	clockFree bool  // each read returns a fresh non-decreasing value
	thr       *Thread
	Threads   []*Thread
	Spawned   []Spawn
	Finalizers []Spawn
	seedN     int
	opaqueN   int
	initDone  map[*ssa.Package]bool
	Notes     []string
	race      *raceState
	tickers   []tickerRec
	feas      *Solver
	feasN     int // assumptions already sent to feas
	FeasQ, FeasPruned, FeasCached, PrunedCalls, FeasTimeouts int
	feasModels []*Model
	vis        bool
	parkLoops  bool
	chanClosed map[int]*Term
	Concrete   *ReplayJob
	TraceRegs  map[string]RegTrace
	TraceOrder []string
	Pin        *ReplayJob
	pinned     map[*Term]uint64
	concPos    map[string]int
	feasMemo   map[int]bool
	FeasTime  time.Duration
	FeasOff   bool
	Prof      map[string]int
	ProfCalls map[string]int
	parFinished []*Term
}

type Spawn struct {
	G    *Term
	Fn   Value
	Args []Value
	Pos  string
}

type Obj struct {
	Base, N int
	T       types.Type
	Name    string
}

type ExecError struct{ Msg string }

func (e *ExecError) Error() string { return e.Msg }

func (x *Exec) fail(format string, args ...interface{}) {
	panic(&ExecError{fmt.Sprintf(format, args...)})
}

func NewExec(prog *ssa.Program, cfg Config) *Exec {
	if cfg.DefaultUnwind == 0 {
		cfg.DefaultUnwind = 4
	}
	if cfg.MaxDepth == 0 {
		cfg.MaxDepth = 120
	}
	if cfg.SmallTables == 0 {
		cfg.SmallTables = 1 // constructors build 1-root-bucket tables (stated bound)
	}
	if cfg.Unwind == nil {
		cfg.Unwind = map[string]int{}
	}
	if cfg.AssumeLoops == nil {
		cfg.AssumeLoops = map[string]bool{}
	}
	// retry loop of doCompute: at most 3 attempts (checked by unwinding assertion)
	for _, fn := range []string{"(*" + xsyncPath + ".Map).doCompute@compute_attempt", "(*" + xsyncPath + ".MapOf).doCompute@compute_attempt"} {
		if _, ok := cfg.Unwind[fn]; !ok {
			cfg.Unwind[fn] = 3
		}
	}
	// striped counters: 8 stripes
	for _, fn := range []string{"(*" + xsyncPath + ".mapTable).sumSize", "(*" + xsyncPath + ".mapOfTable).sumSize"} {
		if _, ok := cfg.Unwind[fn]; !ok {
			cfg.Unwind[fn] = 9
		}
	}
	// spin loops whose extra iterations change no state: pruned by assumption
	for _, fn := range []string{xsyncPath + ".makeSeed", xsyncPath + ".lockBucket"} {
		if _, ok := cfg.Unwind[fn]; !ok {
			cfg.Unwind[fn] = 1
		}
		cfg.AssumeLoops[fn] = true
	}
	x := &Exec{U: NewUniv(), Prog: prog, Cfg: cfg,
		lay:     layoutCache{n: map[types.Type]int{}},
		globs:   map[*ssa.Global]int{},
		Streams: map[string][]StreamEnt{},
		strIDs:  map[string]int{"": 0}, strByID: map[int]string{0: ""},
		instrIDs: map[ssa.Instruction]int{}, instrKeys: map[ssa.Instruction]string{}, fnInfos: map[*ssa.Function]*fnInfo{},
		FuncsEncoded: map[string]string{}, initDone: map[*ssa.Package]bool{}, chanClosed: map[int]*Term{},
	}
	if cfg.Race {
		x.race = &raceState{}
	}
	x.cells = append(x.cells, nil) // address 0 = nil
	x.cellT = append(x.cellT, nil)
	x.clock = x.U.Const(64, 0)
	return x
}

// ---------- guards, assumptions, obligations ----------

func (x *Exec) pos(p token.Pos) string {
	if !p.IsValid() {
		return ""
	}
	ps := x.Prog.Fset.Position(p)
	return fmt.Sprintf("%s:%d", ps.Filename, ps.Line)
}

// act turns a path guard into an effect guard (window-gated in thread mode).
func (x *Exec) act(g *Term) *Term {
	if x.thr == nil {
		return g
	}
	if x.vis {
		return x.U.And(g, x.thr.inWin(x.U))
	}
	return x.U.And(g, x.thr.inWinPlain(x.U))
}

func (x *Exec) Assume(g, c *Term, txt string) {
	t := x.U.Implies(x.act(g), c)
	if t.IsTrue() {
		return
	}
	x.Assumes = append(x.Assumes, t)
	if txt != "" {
		x.AssumeTxt = append(x.AssumeTxt, txt)
	}
}

func (x *Exec) oblige(kind string, g *Term, msg string, p token.Pos) {
	g = x.act(g)
	if g.IsFalse() {
		return
	}
	x.Obligs = append(x.Obligs, Oblig{Kind: kind, Cond: g, Msg: msg, Pos: x.pos(p)})
}

// ---------- memory ----------

func (x *Exec) allocCells(t types.Type, name string) int {
	lt := x.leafTypes(t, nil)
	base := len(x.cells)
	for _, l := range lt {
		x.cells = append(x.cells, x.zero(l))
		x.cellT = append(x.cellT, l)
	}
	if len(lt) == 0 {
		// zero-size object still needs a distinct address
		x.cells = append(x.cells, x.U.Const(8, 0))
		x.cellT = append(x.cellT, types.Typ[types.Uint8])
	}
	x.objs = append(x.objs, Obj{Base: base, N: len(lt), T: t, Name: name})
	return base
}

// allocArray allocates n consecutive elements of type elem.
func (x *Exec) allocArray(elem types.Type, n int, name string) int {
	base := len(x.cells)
	lt := x.leafTypes(elem, nil)
	for i := 0; i < n; i++ {
		for _, l := range lt {
			x.cells = append(x.cells, x.zero(l))
			x.cellT = append(x.cellT, l)
		}
	}
	if n*len(lt) == 0 {
		x.cells = append(x.cells, x.U.Const(8, 0))
		x.cellT = append(x.cellT, types.Typ[types.Uint8])
	}
	x.objs = append(x.objs, Obj{Base: base, N: n * len(lt), T: types.NewArray(elem, int64(n)), Name: name})
	return base
}

func (x *Exec) ObjOf(addr int) (Obj, bool) {
	i := sort.Search(len(x.objs), func(i int) bool { return x.objs[i].Base > addr }) - 1
	if i >= 0 && i < len(x.objs) {
		return x.objs[i], true
	}
	return Obj{}, false
}

// loadRaw reads a value of type t through p (no gating; pure read of current memory).
func (x *Exec) loadRaw(p PtrV, t types.Type) Value {
	n := x.cellsOf(t)
	if len(p.Alts) == 0 {
		return x.zero(t)
	}
	leaves := make([]Value, n)
	lts := x.leafTypes(t, nil)
	for j := 0; j < n; j++ {
		var r Value
		for i := len(p.Alts) - 1; i >= 0; i-- {
			a := p.Alts[i].Addr + j
			var cv Value
			if p.Alts[i].Addr >= ifaceViewTyp {
				cv = x.loadIfaceView(p.Alts[i].Addr)
			} else if a <= 0 || a >= len(x.cells) {
				cv = x.zero(lts[j])
			} else {
				cv = x.coerce(x.cells[a], lts[j])
			}
			if r == nil {
				r = cv
			} else {
				r = x.mergeDbg(p, j, i, cv, r)
			}
		}
		leaves[j] = r
	}
	v, _ := x.unflatten(t, leaves)
	return v
}

// coerce adapts a cell value to the leaf type it is read as (reinterpreting
// casts between pointer-ish and integer words; anything else is kept).
func (x *Exec) coerce(v Value, lt types.Type) Value {
	switch vv := v.(type) {
	case *Term:
		if isPointerLike(lt) {
			if vv.IsConst() && vv.Val == 0 {
				return PtrV{}
			}
		}
		if b, ok := lt.Underlying().(*types.Basic); ok {
			if w, _, ok := basicWidth(b); ok && w != vv.W && vv.W != 0 && w != 0 {
				if w < vv.W {
					return x.U.Extract(vv, w-1, 0)
				}
				return x.U.Zext(vv, w)
			}
		}
	case PtrV:
		_ = vv
	}
	return v
}

func (x *Exec) nilCheck(p PtrV, g *Term, what string, pos token.Pos) {
	nn := x.ptrNonNil(p)
	if nn.IsTrue() {
		return
	}
	x.oblige("nil", x.U.And(g, x.U.Not(nn)), "nil pointer dereference: "+what, pos)
}

func (x *Exec) storeRaw(p PtrV, t types.Type, v Value, g *Term) {
	leaves := x.flatten(t, v, nil)
	for _, al := range p.Alts {
		c := x.U.And(g, al.G)
		if c.IsFalse() {
			continue
		}
		for j, lv := range leaves {
			a := al.Addr + j
			if a <= 0 || a >= len(x.cells) {
				continue
			}
			old := x.cells[a]
			if c.IsTrue() {
				x.cells[a] = lv
			} else {
				x.cells[a] = x.mergeCell(c, lv, old)
			}
		}
	}
}

func (x *Exec) mergeCell(c *Term, nv, old Value) (r Value) {
	defer func() {
		if e := recover(); e != nil {
			if _, ok := e.(*ExecError); ok {
				panic(e)
			}
			x.fail("cell merge: %v (new %T, old %T)", e, nv, old)
		}
	}()
	// reinterpretation between 0 and nil pointers etc.
	switch o := old.(type) {
	case *Term:
		switch n := nv.(type) {
		case *Term:
			if o.W != n.W {
				if n.W != 0 && o.W != 0 {
					if n.W < o.W {
						n = x.U.Zext(n, o.W)
					} else {
						n = x.U.Extract(n, o.W-1, 0)
					}
					return x.U.Ite(c, n, o)
				}
			}
		}
	}
	return x.Merge(c, nv, old)
}

// Load is the instruction-level load: nil check, gating and (thread mode) register persistence.
func (x *Exec) Load(f *frame, key ssa.Instruction, p PtrV, t types.Type, g *Term, pos token.Pos) Value {
	x.nilCheck(p, g, "load", pos)
	x.raceAccess(p, x.cellsOf(t), g, false, false, pos)
	v := x.loadRaw(p, t)
	return x.persist(f, key, g, v)
}

func (x *Exec) Store(p PtrV, t types.Type, v Value, g *Term, pos token.Pos) {
	x.nilCheck(p, g, "store", pos)
	x.raceAccess(p, x.cellsOf(t), g, true, false, pos)
	x.storeRaw(p, t, v, x.act(g))
}

// ---------- function info: RPO and loop forest ----------

type loopInfo struct {
	header   *ssa.BasicBlock
	blocks   map[*ssa.BasicBlock]bool
	parent   *loopInfo
	liveOut  []ssa.Value
	name     string
}

type fnInfo struct {
	rpo      []*ssa.BasicBlock
	loopOf   map[*ssa.BasicBlock]*loopInfo // innermost loop containing block
	headerOf map[*ssa.BasicBlock]*loopInfo
}

func (x *Exec) info(fn *ssa.Function) *fnInfo {
	if fi, ok := x.fnInfos[fn]; ok {
		return fi
	}
	fi := &fnInfo{loopOf: map[*ssa.BasicBlock]*loopInfo{}, headerOf: map[*ssa.BasicBlock]*loopInfo{}}
	// RPO
	seen := map[*ssa.BasicBlock]bool{}
	var post []*ssa.BasicBlock
	var dfs func(b *ssa.BasicBlock)
	dfs = func(b *ssa.BasicBlock) {
		seen[b] = true
		for _, s := range b.Succs {
			if !seen[s] {
				dfs(s)
			}
		}
		post = append(post, b)
	}
	if len(fn.Blocks) > 0 {
		dfs(fn.Blocks[0])
	}
	for i := len(post) - 1; i >= 0; i-- {
		fi.rpo = append(fi.rpo, post[i])
	}
	// natural loops
	var loops []*loopInfo
	for _, b := range fi.rpo {
		for _, s := range b.Succs {
			if s.Dominates(b) { // back edge b->s
				L := fi.headerOf[s]
				if L == nil {
					L = &loopInfo{header: s, blocks: map[*ssa.BasicBlock]bool{s: true}, name: fmt.Sprintf("%s#%d", fn.String(), s.Index)}
					fi.headerOf[s] = L
					loops = append(loops, L)
				}
				// backward walk from b
				stack := []*ssa.BasicBlock{b}
				for len(stack) > 0 {
					n := stack[len(stack)-1]
					stack = stack[:len(stack)-1]
					if L.blocks[n] {
						continue
					}
					L.blocks[n] = true
					for _, p := range n.Preds {
						if seen[p] {
							stack = append(stack, p)
						}
					}
				}
			}
		}
	}
	// nesting: innermost loop per block = smallest containing loop
	sort.Slice(loops, func(i, j int) bool { return len(loops[i].blocks) < len(loops[j].blocks) })
	for _, L := range loops {
		for b := range L.blocks {
			if fi.loopOf[b] == nil {
				fi.loopOf[b] = L
			}
		}
	}
	for i, L := range loops {
		for _, M := range loops[i+1:] {
			if M.blocks[L.header] && M != L {
				L.parent = M
				break
			}
		}
	}
	// live-out values
	for _, L := range loops {
		for b := range L.blocks {
			for _, ins := range b.Instrs {
				v, ok := ins.(ssa.Value)
				if !ok {
					continue
				}
				refs := v.Referrers()
				if refs == nil {
					continue
				}
				for _, r := range *refs {
					if rb := r.Block(); rb != nil && !L.blocks[rb] {
						L.liveOut = append(L.liveOut, v)
						break
					}
				}
			}
		}
		sort.Slice(L.liveOut, func(i, j int) bool { return L.liveOut[i].Name() < L.liveOut[j].Name() })
	}
	x.fnInfos[fn] = fi
	return fi
}

// ---------- frames ----------

type edge struct {
	g    *Term
	pred *ssa.BasicBlock
}

type retEdge struct {
	g    *Term
	vals []Value
}

type deferred struct {
	g    *Term
	call *ssa.CallCommon
	args []Value
	fnv  Value
	ins  ssa.Instruction
}

type frame struct {
	fn       *ssa.Function
	fi       *fnInfo
	env      map[ssa.Value]Value
	envG     map[ssa.Value]*Term
	incoming map[*ssa.BasicBlock][]edge
	rets     []retEdge
	defers   []deferred
	path     string
	iterVec  []int
	binds    []Value
	panicked *Term
}

func (f *frame) key(x *Exec, ins ssa.Instruction) string {
	id, ok := x.instrKeys[ins]
	if !ok {
		// stable across runs: function, block index, position in block
		b := ins.Block()
		pos := 0
		if b != nil {
			for i, in2 := range b.Instrs {
				if in2 == ins {
					pos = i
					break
				}
			}
			id = fmt.Sprintf("%s.b%d.%d", b.Parent().String(), b.Index, pos)
		} else {
			id = fmt.Sprintf("?%p", ins)
		}
		x.instrKeys[ins] = id
	}
	var sb strings.Builder
	sb.WriteString(f.path)
	sb.WriteString("/")
	sb.WriteString(id)
	for _, i := range f.iterVec {
		fmt.Fprintf(&sb, ".%d", i)
	}
	return sb.String()
}

func (x *Exec) unwindBound(L *loopInfo) (int, bool) {
	k := x.Cfg.DefaultUnwind
	fnName := baseName(L.header.Parent())
	if v, ok := x.Cfg.Unwind[fnName]; ok {
		k = v
	}
	if v, ok := x.Cfg.Unwind[L.name]; ok {
		k = v
	}
	if v, ok := x.Cfg.Unwind[fnName+"@"+L.header.Comment]; ok {
		k = v
	}
	as := x.Cfg.AssumeLoops[L.name] || x.Cfg.AssumeLoops[fnName]
	return k, as
}

// CallFunction inlines fn under guard g.
func (x *Exec) CallFunction(fn *ssa.Function, args []Value, binds []Value, g *Term, path string) Value {
	if g.IsFalse() && x.thr == nil {
		return x.zeroResults(fn.Signature)
	}
	if len(fn.Blocks) == 0 {
		x.fail("function %s has no body and no stub", fn.String())
	}
	if x.depth > 14 && x.depth%3 == 0 && !x.feasible(g) {
		// deep (re-entrant) call chain whose guard is unsatisfiable: not taken
		return x.zeroResults(fn.Signature)
	}
	x.depth++
	if x.depth > x.Cfg.MaxDepth {
		x.fail("call depth exceeded at %s", fn.String())
	}
	defer func() { x.depth-- }()
	if _, ok := x.FuncsEncoded[fn.String()]; !ok {
		x.FuncsEncoded[fn.String()] = x.pos(fn.Pos())
	}
	f := &frame{fn: fn, fi: x.info(fn), env: map[ssa.Value]Value{}, envG: map[ssa.Value]*Term{},
		incoming: map[*ssa.BasicBlock][]edge{}, path: path, binds: binds}
	if len(args) != len(fn.Params) {
		x.fail("call %s: %d args for %d params", fn.String(), len(args), len(fn.Params))
	}
	for i, p := range fn.Params {
		f.env[p] = args[i]
	}
	for i, fv := range fn.FreeVars {
		if i < len(binds) {
			f.env[fv] = binds[i]
		}
	}
	f.incoming[fn.Blocks[0]] = []edge{{g, nil}}
	t0 := x.U.NumTerms()
	x.runRegion(f, nil)
	if x.Prof != nil {
		x.Prof[fn.String()] += x.U.NumTerms() - t0
		x.ProfCalls[fn.String()]++
	}
	if x.TraceRegs != nil {
		for i, r := range f.rets {
			k := fmt.Sprintf("%s/ret%d", path, i)
			x.TraceOrder = append(x.TraceOrder, k)
			x.TraceRegs[k] = RegTrace{x.U.True, r.g, fmt.Sprintf("%s: return edge #%d of %d", fn.Name(), i, len(f.rets))}
		}
	}
	// merge returns
	res := fn.Signature.Results()
	if res.Len() == 0 {
		return nil
	}
	if len(f.rets) == 0 {
		return x.zeroResults(fn.Signature)
	}
	var out []Value
	for i := len(f.rets) - 1; i >= 0; i-- {
		r := f.rets[i]
		if out == nil {
			out = append([]Value(nil), r.vals...)
			continue
		}
		for j := range out {
			out[j] = x.Merge(r.g, r.vals[j], out[j])
		}
	}
	if res.Len() == 1 {
		return out[0]
	}
	return AggV{Elems: out}
}

func (x *Exec) zeroResults(sig *types.Signature) Value {
	res := sig.Results()
	switch res.Len() {
	case 0:
		return nil
	case 1:
		return x.zero(res.At(0).Type())
	}
	return x.zero(res)
}

func (x *Exec) runRegion(f *frame, L *loopInfo) {
	for _, b := range f.fi.rpo {
		if L != nil && !L.blocks[b] {
			continue
		}
		inner := f.fi.loopOf[b]
		if inner == L {
			if L != nil && b == L.header {
				continue
			}
			x.runBlock(f, b)
		} else if child := f.fi.headerOf[b]; child != nil && child.parent == L {
			x.runLoop(f, child)
		}
	}
}

func (x *Exec) orEdges(in []edge) *Term {
	g := x.U.False
	for _, e := range in {
		g = x.U.Or(g, e.g)
	}
	return g
}

type mergedVal struct {
	v Value
	g *Term
}

func (x *Exec) runLoop(f *frame, L *loopInfo) {
	K, assumeMode := x.unwindBound(L)
	merged := map[ssa.Value]*mergedVal{}
	counted := 0
	for iter := 0; ; iter++ {
		in := f.incoming[L.header]
		delete(f.incoming, L.header)
		g := x.orEdges(in)
		if g.IsFalse() {
			break
		}
		if iter > 4096 {
			x.fail("loop %s: more than 4096 concrete iterations", L.name)
		}
		if iter > 0 && !x.feasible(g) {
			break
		}
		if counted > K {
			if x.parkLoops {
				// a goroutine body run as a call: after the bound it is parked at its next wait (no claim about later iterations)
				break
			}
			if assumeMode && x.thr == nil && strings.HasSuffix(baseName(L.header.Parent()), ".lockBucket") {
				// sequential code spinning on a bucket lock: nobody can ever release it (self-deadlock,
				// e.g. a callback invoked while the bucket lock is held re-enters the map)
				x.oblige("deadlock", g, "lockBucket would spin for ever: the bucket lock is already held by this goroutine", L.header.Instrs[0].Pos())
			} else if assumeMode && x.thr != nil && x.thr.NoWait {
				x.oblige("blocked", g, fmt.Sprintf("spin loop %s: a reader would have to wait for a stalled writer", L.name), L.header.Instrs[0].Pos())
			} else if assumeMode {
				x.Assume(g, x.U.False, "")
			} else {
				x.oblige("unwind", g, fmt.Sprintf("loop %s needs more than %d iterations", L.name, K), L.header.Instrs[0].Pos())
			}
			break
		}
		f.iterVec = append(f.iterVec, iter)
		x.runBlockEdges(f, L.header, in)
		// iterations whose loop condition is decided concretely are not
		// counted against the unwinding bound (constant-trip loops)
		free := false
		exitTest := false
		for _, sc := range L.header.Succs {
			if !L.blocks[sc] {
				exitTest = true
			}
		}
		if br, ok := L.header.Instrs[len(L.header.Instrs)-1].(*ssa.If); ok && exitTest {
			if c, ok := f.env[br.Cond].(*Term); ok && c.IsConst() {
				free = true
			} else if _, isC := br.Cond.(*ssa.Const); isC {
				free = true
			}
		}
		if !free {
			counted++
		}
		x.runRegion(f, L)
		for _, v := range L.liveOut {
			val, ok := f.env[v]
			if !ok {
				continue
			}
			gv := f.envG[v]
			if m := merged[v]; m == nil {
				merged[v] = &mergedVal{val, gv}
			} else {
				m.v = x.Merge(gv, val, m.v)
				m.g = x.U.Or(gv, m.g)
			}
		}
		f.iterVec = f.iterVec[:len(f.iterVec)-1]
	}
	for v, m := range merged {
		f.env[v] = m.v
		f.envG[v] = m.g
	}
}

func (x *Exec) runBlock(f *frame, b *ssa.BasicBlock) {
	in := f.incoming[b]
	if len(in) == 0 {
		return
	}
	delete(f.incoming, b)
	x.runBlockEdges(f, b, in)
}

type RegTrace struct {
	G *Term
	V *Term
	Desc string
}

func (x *Exec) setReg(f *frame, v ssa.Value, val Value, g *Term) {
	f.env[v] = val
	f.envG[v] = g
	if x.TraceRegs != nil {
		if ins, ok := v.(ssa.Instruction); ok {
			if t, ok := val.(*Term); ok {
				k := f.key(x, ins)
				if _, dup := x.TraceRegs[k]; !dup {
					x.TraceOrder = append(x.TraceOrder, k)
				}
				x.TraceRegs[k] = RegTrace{g, t, fmt.Sprintf("%s: %s = %s @%s", f.fn.Name(), v.Name(), ins.String(), x.pos(ins.Pos()))}
			}
		}
	}
}

func (x *Exec) runBlockEdges(f *frame, b *ssa.BasicBlock, in []edge) {
	g := x.orEdges(in)
	if g.IsFalse() {
		return
	}
	// phis (parallel)
	nphi := 0
	var phiVals []Value
	for _, ins := range b.Instrs {
		phi, ok := ins.(*ssa.Phi)
		if !ok {
			break
		}
		nphi++
		// group edge guards by predecessor
		var val Value
		for pi := len(b.Preds) - 1; pi >= 0; pi-- {
			pg := x.U.False
			for _, e := range in {
				if e.pred == b.Preds[pi] {
					pg = x.U.Or(pg, e.g)
				}
			}
			if pg.IsFalse() {
				continue
			}
			ov := x.operand(f, phi.Edges[pi])
			if val == nil {
				val = ov
			} else {
				val = x.Merge(pg, ov, val)
			}
		}
		if val == nil {
			val = x.zero(phi.Type())
		}
		phiVals = append(phiVals, val)
	}
	for i := 0; i < nphi; i++ {
		x.setReg(f, b.Instrs[i].(*ssa.Phi), phiVals[i], g)
	}
	for _, ins := range b.Instrs[nphi:] {
		x.NInstr++
		x.stepSafe(f, ins, g)
	}
}

func (x *Exec) addEdge(f *frame, from, to *ssa.BasicBlock, g *Term) {
	if g.IsFalse() {
		return
	}
	f.incoming[to] = append(f.incoming[to], edge{g, from})
}

// ---------- operands / constants ----------

func (x *Exec) StrID(s string) int {
	if id, ok := x.strIDs[s]; ok {
		return id
	}
	id := 0xFFFF - len(x.strIDs)
	x.strIDs[s] = id
	x.strByID[id] = s
	return id
}

func (x *Exec) StrByID(id int) (string, bool) {
	s, ok := x.strByID[id]
	return s, ok
}

func (x *Exec) constant(c *ssa.Const) Value {
	t := c.Type()
	if c.Value == nil {
		return x.zero(t)
	}
	switch ut := t.Underlying().(type) {
	case *types.Basic:
		switch {
		case ut.Info()&types.IsBoolean != 0:
			return x.U.Bool(constant.BoolVal(c.Value))
		case ut.Info()&types.IsString != 0:
			return x.U.Const(StrW, uint64(x.StrID(constant.StringVal(c.Value))))
		case ut.Info()&types.IsFloat != 0:
			fv, _ := constant.Float64Val(c.Value)
			return FloatV{Alts: []FlAlt{{x.U.True, fv}}}
		case ut.Info()&types.IsInteger != 0:
			w, _, _ := basicWidth(ut)
			if i, ok := constant.Int64Val(constant.ToInt(c.Value)); ok {
				return x.U.Const(w, uint64(i))
			}
			if i, ok := constant.Uint64Val(constant.ToInt(c.Value)); ok {
				return x.U.Const(w, i)
			}
		}
	case *types.Interface:
		// generic zero
		return x.zero(t)
	}
	x.fail("unsupported constant %v : %v", c, t)
	return nil
}

func (x *Exec) operand(f *frame, v ssa.Value) Value {
	switch vv := v.(type) {
	case *ssa.Const:
		return x.constant(vv)
	case *ssa.Global:
		return PtrV{Alts: []PAlt{{x.U.True, x.globalAddr(vv)}}}
	case *ssa.Function:
		return FuncV{Alts: []FAlt{{G: x.U.True, Fn: vv}}}
	case *ssa.Builtin:
		x.fail("builtin %s used as value", vv.Name())
	}
	if val, ok := f.env[v]; ok {
		return val
	}
	// value not computed on any executed path (dead operand of a merge)
	return x.zero(v.Type())
}

func (x *Exec) globalAddr(g *ssa.Global) int {
	if a, ok := x.globs[g]; ok {
		return a
	}
	x.ensureInit(g.Pkg)
	if a, ok := x.globs[g]; ok {
		return a
	}
	a := x.allocCells(g.Type().(*types.Pointer).Elem(), "global "+g.String())
	x.globs[g] = a
	return a
}

// ensureInit runs the package initialiser of pkg (concretely), skipping other
// packages' init calls.
func (x *Exec) ensureInit(pkg *ssa.Package) {
	if pkg == nil || x.initDone[pkg] {
		return
	}
	x.initDone[pkg] = true
	p := pkg.Pkg.Path()
	if !strings.HasPrefix(p, "github.com/fufuok/cache") {
		return
	}
	for _, m := range pkg.Members {
		if gl, ok := m.(*ssa.Global); ok {
			if _, ok := x.globs[gl]; !ok {
				x.globs[gl] = x.allocCells(gl.Type().(*types.Pointer).Elem(), "global "+gl.String())
			}
		}
	}
	if init := pkg.Func("init"); init != nil && len(init.Blocks) > 0 {
		saved := x.thr
		x.thr = nil
		x.CallFunction(init, nil, nil, x.U.True, "init:"+p)
		x.thr = saved
	}
}

// ---------- scalar helpers ----------

func (x *Exec) typeWidth(t types.Type) (int, bool) {
	if b, ok := t.Underlying().(*types.Basic); ok {
		w, _, ok := basicWidth(b)
		return w, ok
	}
	return 0, false
}

func (x *Exec) floatBin(op token.Token, a, b FloatV) Value {
	u := x.U
	type res struct {
		g *Term
		f float64
		b bool
	}
	isCmp := false
	switch op {
	case token.EQL, token.NEQ, token.LSS, token.LEQ, token.GTR, token.GEQ:
		isCmp = true
	}
	var fr FloatV
	cr := u.False
	for _, p := range a.Alts {
		for _, q := range b.Alts {
			g := u.And(p.G, q.G)
			if g.IsFalse() {
				continue
			}
			if isCmp {
				var r bool
				switch op {
				case token.EQL:
					r = p.F == q.F
				case token.NEQ:
					r = p.F != q.F
				case token.LSS:
					r = p.F < q.F
				case token.LEQ:
					r = p.F <= q.F
				case token.GTR:
					r = p.F > q.F
				case token.GEQ:
					r = p.F >= q.F
				}
				if r {
					cr = u.Or(cr, g)
				}
				continue
			}
			var r float64
			switch op {
			case token.ADD:
				r = p.F + q.F
			case token.SUB:
				r = p.F - q.F
			case token.MUL:
				r = p.F * q.F
			case token.QUO:
				r = p.F / q.F
			default:
				x.fail("float op %v", op)
			}
			fr.Alts = append(fr.Alts, FlAlt{g, r})
		}
	}
	if isCmp {
		return cr
	}
	return fr
}

func (x *Exec) intToFloat(t *Term, signed bool) FloatV {
	cs := PossibleConsts(t)
	if cs == nil {
		x.fail("int->float conversion of a non-enumerable symbolic value (n%d): %s", t.ID, t.Show(7))
	}
	r := FloatV{}
	for _, c := range cs {
		var fv float64
		if signed {
			fv = float64(sext64(c, t.W))
		} else {
			fv = float64(c)
		}
		r.Alts = append(r.Alts, FlAlt{x.U.Eq(t, x.U.Const(t.W, c)), fv})
	}
	return r
}

func (x *Exec) floatToInt(f FloatV, w int, signed bool) *Term {
	var r *Term
	for i := len(f.Alts) - 1; i >= 0; i-- {
		a := f.Alts[i]
		var c uint64
		if math.IsNaN(a.F) || math.IsInf(a.F, 0) {
			c = 0
		} else if signed {
			c = uint64(int64(a.F))
		} else {
			c = uint64(a.F)
		}
		ct := x.U.Const(w, c)
		if r == nil {
			r = ct
		} else {
			r = x.U.Ite(a.G, ct, r)
		}
	}
	if r == nil {
		r = x.U.Const(w, 0)
	}
	return r
}

// valueEq is Go's == on two values of static type t.
func (x *Exec) valueEq(t types.Type, a, b Value) *Term {
	u := x.U
	switch ut := t.Underlying().(type) {
	case *types.Basic:
		if ut.Kind() == types.UnsafePointer {
			return x.ptrEq(asPtr(a), asPtr(b))
		}
		if ut.Info()&types.IsFloat != 0 {
			return x.floatBin(token.EQL, a.(FloatV), b.(FloatV)).(*Term)
		}
		_, ap := a.(PtrV)
		_, bp := b.(PtrV)
		if ap || bp {
			return x.ptrEq(asPtr(a), asPtr(b))
		}
		return u.Eq(a.(*Term), b.(*Term))
	case *types.Pointer:
		return x.ptrEq(asPtr(a), asPtr(b))
	case *types.Struct:
		r := u.True
		av, bv := a.(AggV), b.(AggV)
		for i := 0; i < ut.NumFields(); i++ {
			r = u.And(r, x.valueEq(ut.Field(i).Type(), av.Elems[i], bv.Elems[i]))
		}
		return r
	case *types.Array:
		r := u.True
		av, bv := a.(AggV), b.(AggV)
		for i := range av.Elems {
			r = u.And(r, x.valueEq(ut.Elem(), av.Elems[i], bv.Elems[i]))
		}
		return r
	case *types.Interface:
		return x.ifaceEq(a.(IfaceV), b.(IfaceV))
	case *types.Signature:
		// only comparison with nil is legal
		af, bf := a.(FuncV), b.(FuncV)
		an, bn := u.False, u.False
		for _, al := range af.Alts {
			an = u.Or(an, al.G)
		}
		for _, al := range bf.Alts {
			bn = u.Or(bn, al.G)
		}
		return u.And(u.Not(an), u.Not(bn))
	case *types.Slice:
		as, bs := a.(SliceV), b.(SliceV)
		return u.And(u.Not(x.ptrNonNil(as.Base)), u.Not(x.ptrNonNil(bs.Base)))
	case *types.Map:
		am, bm := a.(MapV), b.(MapV)
		return u.Bool(am.Ref == nil && bm.Ref == nil)
	case *types.Chan:
		return u.True
	}
	x.fail("valueEq: unsupported type %v", t)
	return nil
}

func (x *Exec) ifaceEq(a, b IfaceV) *Term {
	u := x.U
	r := u.Eq(a.Tag, b.Tag)
	if r.IsFalse() {
		return r
	}
	for id, av := range a.Pay {
		bv, ok := b.Pay[id]
		if !ok {
			continue
		}
		is := u.Eq(a.Tag, u.Const(16, uint64(id)))
		r = u.And(r, u.Implies(is, x.valueEq(x.TR.Type(id), av, bv)))
	}
	return r
}

func (x *Exec) mkIface(t types.Type, v Value) IfaceV {
	id := x.TR.ID(t)
	return IfaceV{Tag: x.U.Const(16, uint64(id)), Pay: map[int]Value{id: v}}
}

// restrictIface returns v with its tag replaced by 0 when cond is false.
func (x *Exec) restrictIface(v IfaceV, cond *Term) IfaceV {
	return IfaceV{Tag: x.U.Ite(cond, v.Tag, x.U.Const(16, 0)), Pay: v.Pay}
}


func (x *Exec) stepSafe(f *frame, ins ssa.Instruction, g *Term) {
	if x.U.NumTerms() > 4000000 {
		x.fail("formula too large (> 4M term nodes) while executing %s: reduce the bound", f.fn.String())
	}
	defer func() {
		if e := recover(); e != nil {
			if _, ok := e.(*ExecError); ok {
				panic(e)
			}
			panic(&ExecError{fmt.Sprintf("engine: %v at %s in %s: %v", e, x.pos(ins.Pos()), f.fn.String(), ins)})
		}
	}()
	x.step(f, ins, g)
}


func (x *Exec) mergeDbg(p PtrV, j, i int, cv, r Value) (out Value) {
	defer func() {
		if e := recover(); e != nil {
			var sb strings.Builder
			for _, al := range p.Alts {
				o, _ := x.ObjOf(al.Addr + j)
				fmt.Fprintf(&sb, " [addr %d+%d obj %q base %d type %v cell %T]", al.Addr, j, o.Name, o.Base, o.T, x.cells[al.Addr+j])
			}
			panic(&ExecError{fmt.Sprintf("load through pointer with inconsistent targets: %v;%s", e, sb.String())})
		}
	}()
	return x.Merge(p.Alts[i].G, cv, r)
}


// feasible asks the side solver whether guard g is satisfiable together with
// the assumptions made so far. Unknown/timeouts keep the path.
func (x *Exec) feasible(g *Term) bool {
	if g.IsFalse() {
		return false
	}
	if g.IsTrue() || x.FeasOff {
		return true
	}
	if x.feasMemo == nil {
		x.feasMemo = map[int]bool{}
	}
	if r, ok := x.feasMemo[g.ID]; ok && !r {
		return false // infeasible stays infeasible as assumptions only grow
	}
	if x.feas == nil {
		s, err := NewSolver(x.U, "z3-new", 1500)
		if err != nil {
			x.FeasOff = true
			return true
		}
		s.Grace = 1500 * time.Millisecond
		x.feas = s
	}
	// cheap pre-check: a cached model of an earlier query may already witness g
	for _, m := range x.feasModels {
		ok := m.Eval(g) == 1
		for i := 0; ok && i < len(x.Assumes); i++ {
			ok = m.Eval(x.Assumes[i]) == 1
		}
		if ok {
			x.FeasCached++
			return true
		}
	}
	t0 := time.Now()
	res, _ := x.feas.Query(append(append([]*Term(nil), x.Assumes...), g))
	if res == Sat && len(x.feasModels) < 24 {
		var ts []*Term
		for _, t := range x.U.all {
			if (t.Op == OVar || t.Op == OApp) && x.feas.defined[t.ID] {
				ts = append(ts, t)
			}
		}
		if vals, err := x.feas.Values(ts); err == nil {
			x.feasModels = append(x.feasModels, &Model{Vals: vals, memo: map[*Term]uint64{}, u: x.U})
		}
	}
	x.FeasTime += time.Since(t0)
	x.FeasQ++
	if res == Unsat {
		x.FeasPruned++
		x.feasMemo[g.ID] = false
		return false
	}
	if res == Unknown {
		x.FeasTimeouts++
		if x.FeasTimeouts >= 8 {
			// the side solver is no help on this instance any more
			x.FeasOff = true
		}
	}
	return true
}

func (x *Exec) CloseFeas() {
	if x.feas != nil {
		x.feas.Close()
		x.feas = nil
	}
}


// Interface-header views. xsync's defaultHasher reinterprets the address of an
// interface variable as *iface{typ uintptr; word unsafe.Pointer} (gc ABI). An
// interface value occupies one cell here, so the two fields are addressed as
// views of that cell: typ = the dynamic type's id (0 for nil), word = the value
// itself for pointer-shaped dynamic types, otherwise the address of a boxed
// copy of the value.
const (
	ifaceViewTyp  = 1 << 28
	ifaceViewWord = 2 << 28
	ifaceViewMask = 1<<28 - 1
)

func isPointerShaped(t types.Type) bool {
	switch u := t.Underlying().(type) {
	case *types.Pointer, *types.Chan, *types.Map, *types.Signature:
		return true
	case *types.Basic:
		return u.Kind() == types.UnsafePointer
	}
	return false
}

func (x *Exec) loadIfaceView(addr int) Value {
	u := x.U
	base := addr & ifaceViewMask
	word := addr >= ifaceViewWord
	if base <= 0 || base >= len(x.cells) {
		if word {
			return PtrV{}
		}
		return u.Const(64, 0)
	}
	switch cv := x.cells[base].(type) {
	case IfaceV:
		if !word {
			return u.Zext(cv.Tag, 64)
		}
		var r Value = PtrV{}
		for _, id := range sortedKeys(cv.Pay) {
			T := x.TR.Type(id)
			is := u.Eq(cv.Tag, u.Const(16, uint64(id)))
			var w PtrV
			if isPointerShaped(T) {
				if pp, ok := cv.Pay[id].(PtrV); ok {
					w = pp
				}
			} else {
				box := x.allocCells(T, "iface box")
				x.storeRaw(PtrV{Alts: []PAlt{{u.True, box}}}, T, cv.Pay[id], u.True)
				w = PtrV{Alts: []PAlt{{u.True, box}}}
			}
			r = x.Merge(is, w, r)
		}
		return r
	case OpaqueV:
		// a reflect.Type value: its data word is the type descriptor, identified by the type id
		if cv.What == "rtype" {
			if word {
				return u.Const(64, uint64(cv.ID))
			}
			return u.Const(64, 0xFFFF)
		}
	}
	if word {
		return PtrV{}
	}
	return u.Const(64, 0)
}


// loadRawAs reads a T through p even when the target cells hold values of
// another shape (a reinterpreting read, as runtime.typehash does with whatever
// p addresses): mismatching cells are read as their scalar content when they
// have one, and as zero otherwise.
func (x *Exec) loadRawAs(p PtrV, t types.Type) (v Value) {
	defer func() {
		if e := recover(); e != nil {
			if _, ok := e.(*ExecError); !ok {
				panic(e)
			}
			// fall back: per-alternative reads merged leaf-wise where shapes agree
			n := x.cellsOf(t)
			lts := x.leafTypes(t, nil)
			leaves := make([]Value, n)
			for j := 0; j < n; j++ {
				var r Value = x.zero(lts[j])
				for i := len(p.Alts) - 1; i >= 0; i-- {
					a := p.Alts[i].Addr + j
					if a <= 0 || a >= len(x.cells) || p.Alts[i].Addr >= ifaceViewTyp {
						continue
					}
					cv := x.reinterpret(x.cells[a], lts[j])
					r = x.Merge(p.Alts[i].G, cv, r)
				}
				leaves[j] = r
			}
			v, _ = x.unflatten(t, leaves)
		}
	}()
	return x.loadRaw(p, t)
}

// reinterpret reads a cell as leaf type lt whatever it holds.
func (x *Exec) reinterpret(cv Value, lt types.Type) Value {
	u := x.U
	zero := x.zero(lt)
	switch z := zero.(type) {
	case *Term:
		switch c := cv.(type) {
		case *Term:
			if c.W == z.W {
				return c
			}
			if c.W == 0 || z.W == 0 {
				return z
			}
			if c.W > z.W {
				return u.Extract(c, z.W-1, 0)
			}
			return u.Zext(c, z.W)
		case PtrV:
			var r *Term = u.Const(64, 0)
			for i := len(c.Alts) - 1; i >= 0; i-- {
				r = u.Ite(c.Alts[i].G, u.Const(64, uint64(c.Alts[i].Addr)), r)
			}
			if z.W == 64 {
				return r
			}
		}
		return z
	case PtrV:
		if c, ok := cv.(PtrV); ok {
			return c
		}
		// a non-pointer word read as a pointer: an address-like scalar; keep its
		// identity as a term by returning it as is (eqLeaves accepts scalars)
		if c, ok := cv.(*Term); ok {
			return c
		}
		return z
	}
	if fmt.Sprintf("%T", cv) == fmt.Sprintf("%T", zero) {
		return cv
	}
	return zero
}
