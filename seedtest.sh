#!/bin/sh
# usage: seedtest.sh <seed> <property> [tier]   -- applies seeded/<seed>/patch.diff to /repo, runs the check, reverts.
seed="$1"; prop="$2"; tier="${3:-quick}"
cd /repo || exit 2
if [ -n "$(git status --porcelain)" ]; then echo "/repo not clean"; exit 2; fi
git apply "/verif/seeded/$seed/patch.diff" || { echo "patch does not apply"; exit 2; }
cd /verif && GSX_EVIDENCE=/tmp/seed_evidence ./bin/gsx.seedrun check "$prop" -tier "$tier" 2>&1 | grep -E "VIOLATION|KNOWN|INCONCLUSIVE|quick:|thorough:" | cut -c1-260 | head -12
rc=$?
cd /repo && git checkout -- . 
