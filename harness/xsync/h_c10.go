//go:build go1.21

package xsync

import "unsafe"

// C10(a): keys are matched by Go == and by nothing else, for key types of
// several comparable kinds, under an arbitrary hasher that respects == (an
// uninterpreted function of the key's == class: any two keys may collide in
// bucket index, in h2 or completely).

type vxPadKey struct {
	a int8
	b int64
}

type vxNestKey struct {
	s string
	p vxPadKey
	n [2]int32
}

func vxPadKeyGen(name string) vxPadKey { return vxPadKey{int8(VxU8(name + ".a")), VxI64(name + ".b")} }
func vxPadHasher(k vxPadKey, seed uint64) uint64 {
	return VxHashU64(VxHashU64(uint64(uint8(k.a)), uint64(k.b)), seed)
}

func vxNestKeyGen(name string) vxNestKey {
	return vxNestKey{VxStr(name + ".s"), vxPadKeyGen(name + ".p"), [2]int32{int32(VxU32(name + ".n0")), int32(VxU32(name + ".n1"))}}
}
func vxNestHasher(k vxNestKey, seed uint64) uint64 {
	h := VxHashStr(k.s, uint64(uint32(k.n[0]))<<32|uint64(uint32(k.n[1])))
	return VxHashU64(VxHashU64(h, vxPadHasher(k.p, 7)), seed)
}

func vxBoolKeyGen(name string) bool { return VxBool(name) }
func vxBoolHasher(k bool, seed uint64) uint64 {
	if k {
		return VxHashU64(1, seed)
	}
	return VxHashU64(0, seed)
}

func vxI8KeyGen(name string) int8 { return int8(VxU8(name)) }
func vxI8Hasher(k int8, seed uint64) uint64 { return VxHashU64(uint64(uint8(k)), seed) }

var vxPtrCells [3]int

func vxPtrKeyGen(name string) *int {
	switch VxChoice(name, 4) {
	case 0:
		return &vxPtrCells[0]
	case 1:
		return &vxPtrCells[1]
	case 2:
		return &vxPtrCells[2]
	}
	return nil
}
func vxPtrHasher(k *int, seed uint64) uint64 { return VxHashPtr(unsafe.Pointer(k), seed) }

func vxStep10[K comparable](op, slots int, hasher func(K, uint64) uint64, kgen func(string) K) {
	m, c := vxArbMapOf[K, int](1, 1, 1, slots, 0, hasher, kgen, vxIntVal)
	k := kgen("k")
	nv := VxInt("nv")
	del := VxBool("del")
	VxReach("pre-state built")
	vxMapOfApply(m, c, op, k, nv, del)
	VxReach("operation returned")
	vxCheckMapOf(m, c, k)
}

// VxH_C10_step: kind selects the key type.
func VxH_C10_step(kind, op, slots int) {
	switch kind {
	case 0:
		vxStep10[vxPadKey](op, slots, vxPadHasher, vxPadKeyGen)
	case 1:
		vxStep10[vxNestKey](op, slots, vxNestHasher, vxNestKeyGen)
	case 2:
		vxStep10[bool](op, slots, vxBoolHasher, vxBoolKeyGen)
	case 3:
		vxStep10[int8](op, slots, vxI8Hasher, vxI8KeyGen)
	case 4:
		vxStep10[*int](op, slots, vxPtrHasher, vxPtrKeyGen)
	case 5:
		vxStep10[string](op, slots, VxStrHasher, vxStrKey)
	}
}

// VxH_C10_pointee: an entry stays reachable under a pointer key whatever is
// later written to the memory the key points to.
func VxH_C10_pointee() {
	m := VxNewMapOf[*int, int](1, 1, vxPtrHasher)
	p := vxPtrKeyGen("p")
	m.Store(p, 7)
	if p != nil {
		*p = VxInt("newpointee")
	}
	v, ok := m.Load(p)
	VxObserve("ok", ok)
	VxAssert(ok && v == 7, "entry reachable under its pointer key after the pointee changed")
	VxReach("end")
}
