//go:build go1.21

package xsync

import (
	"sync"
	"sync/atomic"
	"unsafe"
)

// VxNewMap builds an empty Map through the real table constructor but with a
// harness-chosen (small) table length, so that grow/shrink/chain paths are
// within reach of a bounded check. minLen is the shrink floor.
func VxNewMap(tableLen, minLen int) *Map {
	m := &Map{}
	m.resizeCond = *sync.NewCond(&m.resizeMu)
	table := newMapTable(tableLen)
	m.minTableLen = minLen
	atomic.StorePointer(&m.table, unsafe.Pointer(table))
	return m
}

// VxNewMapOf is the MapOf twin of VxNewMap.
func VxNewMapOf[K comparable, V any](tableLen, minLen int, hasher func(K, uint64) uint64) *MapOf[K, V] {
	m := &MapOf[K, V]{}
	m.resizeCond = *sync.NewCond(&m.resizeMu)
	m.hasher = hasher
	table := newMapOfTable[K, V](tableLen)
	m.minTableLen = minLen
	atomic.StorePointer(&m.table, unsafe.Pointer(table))
	return m
}

func VxStrHasher(s string, seed uint64) uint64 { return VxHashStr(s, seed) }
func VxIntHasher(k int, seed uint64) uint64    { return VxHashU64(uint64(k), seed) }

// VxMapQuiescent: no lock held, no resize pending (used by re-entrancy harnesses).
func VxMapQuiescent(m *Map) bool {
	if atomic.LoadInt64(&m.resizing) != 0 {
		return false
	}
	if !m.resizeMu.TryLock() {
		return false
	}
	m.resizeMu.Unlock()
	t := (*mapTable)(atomic.LoadPointer(&m.table))
	ok := true
	for i := 0; i < len(t.buckets); i++ {
		if t.buckets[i].topHashMutex&1 != 0 {
			ok = false
		}
	}
	return ok
}

// VxMapOfQuiescent: MapOf twin of VxMapQuiescent.
func VxMapOfQuiescent[K comparable, V any](m *MapOf[K, V]) bool {
	if atomic.LoadInt64(&m.resizing) != 0 {
		return false
	}
	if !m.resizeMu.TryLock() {
		return false
	}
	m.resizeMu.Unlock()
	t := (*mapOfTable[K, V])(atomic.LoadPointer(&m.table))
	ok := true
	for i := 0; i < len(t.buckets); i++ {
		if !t.buckets[i].mu.TryLock() {
			ok = false
		} else {
			t.buckets[i].mu.Unlock()
		}
	}
	return ok
}
