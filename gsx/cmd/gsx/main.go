package main

import (
	"encoding/json"
	"flag"
	"fmt"
	"os"
	"strconv"
	"strings"
	"time"

	"gsx/eng"
)

func main() {
	if len(os.Args) < 2 {
		fmt.Println("usage: gsx run <pkg> <Func> [args...] | gsx check <prop> --tier quick")
		os.Exit(2)
	}
	switch os.Args[1] {
	case "run":
		runCmd(os.Args[2:])
	case "diff":
		diffCmd(os.Args[2:])
	case "replay":
		os.Exit(replayCmd(os.Args[2:]))
	case "check":
		os.Exit(checkCmd(os.Args[2:]))
	default:
		fmt.Println("unknown command")
		os.Exit(2)
	}
}

func runCmd(args []string) {
	fs := flag.NewFlagSet("run", flag.ExitOnError)
	rounds := fs.Int("rounds", 2, "rounds")
	realHasher := fs.Bool("realhasher", false, "execute defaultHasher")
	unwind := fs.Int("unwind", 4, "default unwind")
	solver := fs.String("solver", "z3-new", "solver")
	logf := fs.String("log", "", "smt log")
	fs.Parse(args)
	rest := fs.Args()
	ov, _, err := eng.HarnessOverlay(harnessDir())
	if err != nil {
		panic(err)
	}
	L, err := eng.Load(ov)
	if err != nil {
		fmt.Println("load error:", err)
		os.Exit(2)
	}
	fmt.Println("loaded in", L.LoadDur)
	inst := eng.Instance{Name: rest[1], Pkg: rest[0], Func: rest[1], Cfg: eng.Config{Rounds: *rounds, DefaultUnwind: *unwind, RealHasher: *realHasher, NoResizeCall: map[int]bool{0: true, 1: true}}}
	for _, a := range rest[2:] {
		v, _ := strconv.ParseInt(a, 0, 64)
		inst.Args = append(inst.Args, v)
	}
	t0 := time.Now()
	x, err := L.Execute(inst)
	if err != nil {
		fmt.Println("exec error:", err)
		os.Exit(2)
	}
	fmt.Printf("executed: %d instrs, %d terms, %d obligations, %d assumes in %v (feasibility queries %d, pruned %d, %v)\n", x.NInstr, x.U.NumTerms(), len(x.Obligs), len(x.Assumes), time.Since(t0), x.FeasQ, x.FeasPruned, x.FeasTime)
	if os.Getenv("GSX_CONCRETE") != "" {
		for _, o := range x.Observes {
			fmt.Printf("OBS %s guard=%s val=%s\n", o.Name, o.G.Show(3), x.ShowValue(o.V))
		}
		for _, ob := range x.Obligs {
			fmt.Printf("OBLIG %s %q cond=%s\n", ob.Kind, ob.Msg, ob.Cond.Show(3))
		}
		return
	}
	r := eng.Discharge(x, inst, eng.SolveOpts{Solver: *solver, LogFile: *logf})
	fmt.Printf("status=%s err=%q queries=%d (unsat %d sat %d unknown %d) solver=%v reach %d/%d\n", r.Status, r.Err, r.Queries, r.Unsat, r.Sat, r.Unknown, r.SolverTime, r.ReachSat, r.ReachTotal)
	for _, v := range r.Violations {
		fmt.Printf("VIOLATION %s: %s at %s\n", v.Oblig.Kind, v.Oblig.Msg, v.Oblig.Pos)
		for _, name := range x.StreamOrd {
			var vs []string
			for _, e := range x.Streams[name] {
				if v.Model.Eval(e.G) == 1 {
					vs = append(vs, fmt.Sprintf("%#x", v.Model.Eval(e.T)))
				}
			}
			fmt.Printf("   %s = %s\n", name, strings.Join(vs, ","))
		}
	}
}


// diffCmd: encoder debugging. Runs the harness symbolically with inputs pinned
// to a replay job, takes the solver's model of the first violation, runs the
// harness again with constant inputs and reports the first register whose
// model value differs from the constant-folded value.
func diffCmd(args []string) {
	job := args[0]
	pkg, fn := args[1], args[2]
	ov, _, _ := eng.HarnessOverlay(harnessDir())
	L, err := eng.Load(ov)
	if err != nil {
		panic(err)
	}
	inst := eng.Instance{Name: fn, Pkg: pkg, Func: fn, Cfg: eng.Config{DefaultUnwind: 9, Rounds: 1, NoResizeCall: map[int]bool{0: true, 1: true}}}
	for _, a := range args[3:] {
		v, _ := strconv.ParseInt(a, 0, 64)
		inst.Args = append(inst.Args, v)
	}
	os.Setenv("GSX_TRACE", "1")
	os.Setenv("GSX_PIN", job)
	xs, err := L.Execute(inst)
	if err != nil {
		panic(err)
	}
	r := eng.Discharge(xs, inst, eng.SolveOpts{PreferReach: os.Getenv("GSX_DIFF_REACH")})
	var m *eng.Model
	if os.Getenv("GSX_DIFF_REACH") != "" {
		m = r.ReachModel
		fmt.Println("using reach model", r.ReachLabel)
	} else {
		if len(r.Violations) == 0 {
			fmt.Println("no violation under pinned inputs: status", r.Status)
			return
		}
		m = r.Violations[0].Model
		fmt.Println("violation:", r.Violations[0].Oblig.Msg)
	}
	for _, ob := range xs.Obligs {
		if m.Eval(ob.Cond) == 1 {
			fmt.Printf("MODEL-TRUE obligation %s: %s (%s)\n", ob.Kind, ob.Msg, ob.Pos)
		}
	}
	for i, a := range xs.Assumes {
		if m.Eval(a) != 1 {
			fmt.Printf("MODEL-FALSE assumption #%d: %s\n", i, a.Show(5))
		}
	}
	os.Unsetenv("GSX_PIN")
	os.Setenv("GSX_CONCRETE", job)
	xc, err := L.Execute(inst)
	if err != nil {
		panic(err)
	}
	n := 0
	for _, k := range xs.TraceOrder {
		if strings.Contains(k, "/ret") {
			st := xs.TraceRegs[k]
			if strings.Contains(st.Desc, "doCompute") || strings.Contains(st.Desc, "Load") {
				fmt.Printf("SYMRET %s %s: guard(model)=%d\n", k, st.Desc, m.Eval(st.V))
			}
		}
	}
	for _, k := range xs.TraceOrder {
		st := xs.TraceRegs[k]
		ct, ok := xc.TraceRegs[k]
		if !ok || m.Eval(st.G) != 1 {
			continue
		}
		if strings.Contains(k, "/ret") && strings.Contains(st.Desc, "doCompute") {
			fmt.Printf("RET %s: symbolic guard=%d concrete=%s\n", st.Desc, m.Eval(st.V), ct.V.Show(1))
		}
		if !ct.G.IsTrue() || !ct.V.IsConst() {
			continue
		}
		if m.Eval(st.V) != ct.V.Val {
			fmt.Printf("DIVERGE %s\n   symbolic(model)=%#x concrete=%#x\n   term: %s\n", st.Desc, m.Eval(st.V), ct.V.Val, st.V.Show(4))
			n++
			if n > 6 {
				break
			}
		}
	}
	fmt.Println("compared", len(xs.TraceOrder), "registers;", n, "divergences shown")
}


// replayCmd re-runs a stored counterexample against /repo's current tree.
func replayCmd(args []string) int {
	if len(args) < 1 {
		fmt.Println("usage: gsx replay <replay.json>")
		return 2
	}
	b, err := os.ReadFile(args[0])
	if err != nil {
		fmt.Println(err)
		return 2
	}
	var job eng.ReplayJob
	if err := json.Unmarshal(b, &job); err != nil {
		fmt.Println(err)
		return 2
	}
	ov, _, err := eng.HarnessOverlay(harnessDir())
	if err != nil {
		fmt.Println(err)
		return 2
	}
	L, err := eng.Load(ov)
	if err != nil {
		fmt.Println("load error:", err)
		return 2
	}
	outs, log, err := eng.RunNative(L, harnessDir(), []*eng.ReplayJob{&job}, false)
	if err != nil {
		fmt.Println("native replay failed:", err)
		fmt.Println(log)
		return 2
	}
	no := outs[job.ID]
	if no == nil {
		fmt.Println("no output")
		return 2
	}
	ok, why := confirms(&job, no)
	fmt.Printf("harness %s%v expecting %q\n  native: failures=%v panic=%q deadlock=%v\n", job.Harness, job.Args, job.Expect, no.Failures, no.Panic, no.Deadlock)
	if ok {
		fmt.Println("REPRODUCED:", why)
		return 1
	}
	fmt.Println("not reproduced:", why)
	return 0
}
